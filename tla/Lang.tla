-------------------------------- MODULE Lang --------------------------------
(* Python's meaning of the Reduino DSL subset, as the reference for C01/C02/C03/C05/C09.
   One TLC action per linearization point of the firmware: Setup (everything before the main loop) and
   LoopPass (one pass of the `while True:` body).  Inside an action the meaning of statements and expressions
   is given by recursive operators that thread a machine state (so helper functions with side effects can be
   called from any expression).  Nothing here folds, narrows or re-types: values are typed
   (int / bool / float as an exact rational / str as a token list / list as a heap reference / None).

   Programs come from a JSON file (IOEnv.PROGS_FILE): [{id, defs, setup, loop, hasloop, npass, ain, obs...}].
   For every program the spec computes the event trace (serial lines, delays, pin commands, pass markers),
   the well-definedness of the run (section 4.2 of DESIGN.md), the feature tags it exercises (triggers of
   known findings) and the runtime types every name held; module LangTrace compares recorded traces to it. *)
EXTENDS Integers, Sequences, FiniteSets, TLC, Json, IOUtils

Progs == JsonDeserialize(IOEnv.PROGS_FILE)
FUEL0 == 4000
IMIN == -32768
IMAX == 32767
MAXDEN == 64          \* floats are exact rationals n/d with d <= MAXDEN and |n/d| <= MAXMAG, else ill-defined
MAXMAG == 2000

VARIABLES pid, st, phase, pass
vars == <<pid, st, phase, pass>>

-----------------------------------------------------------------------------
(* Values *)
VI(n) == [t |-> "i", v |-> n]
VB(b) == [t |-> "b", v |-> b]
VF(n, d) == [t |-> "f", n |-> n, d |-> d]
VS(toks) == [t |-> "s", v |-> toks]      \* tokens: [k |-> "t", v |-> text] | [k |-> "n", n |-> num, d |-> den]
VL(id) == [t |-> "l", id |-> id]
VNone == [t |-> "none"]
ERR == [t |-> "err"]
IsErr(v) == v.t = "err"
TT(s) == [k |-> "t", v |-> s]
TN(n, d) == [k |-> "n", n |-> n, d |-> d]

Abs(x) == IF x < 0 THEN -x ELSE x
RECURSIVE Gcd(_, _)
Gcd(a, b) == IF b = 0 THEN a ELSE Gcd(b, a % b)
Norm(n, d) ==
    IF d = 0 THEN ERR ELSE
    LET s == IF d < 0 THEN -1 ELSE 1
        g == Gcd(Abs(n), Abs(d))
        gg == IF g = 0 THEN 1 ELSE g
        nn == (s * n) \div gg
        dd == (s * d) \div gg
    IN IF dd > MAXDEN \/ Abs(nn) > MAXMAG * dd THEN ERR ELSE VF(nn, dd)
FloorDiv(a, b) == IF b > 0 THEN a \div b ELSE (-a) \div (-b)
PyMod(a, b) == a - b * FloorDiv(a, b)
TruncDiv(a, b) == IF (a >= 0) = (b > 0) THEN Abs(a) \div Abs(b) ELSE -(Abs(a) \div Abs(b))
ChkI(n) == IF n < IMIN \/ n > IMAX THEN ERR ELSE VI(n)

IsNum(v) == v.t \in {"i", "b", "f"}
IsInty(v) == v.t \in {"i", "b"}
AsInt(v) == IF v.t = "b" THEN (IF v.v THEN 1 ELSE 0) ELSE v.v
Num(v) == IF v.t = "f" THEN v.n ELSE AsInt(v)
Den(v) == IF v.t = "f" THEN v.d ELSE 1

RECURSIVE Pow(_, _)
Pow(b, e) == IF e = 0 THEN 1 ELSE LET r == Pow(b, e - 1) IN IF Abs(r) > 40000 THEN 99999 ELSE b * r
RECURSIVE BitOp(_, _, _, _)
BitOp(op, a, b, w) ==       \* non-negative operands, w = weight of the current bit
    IF a = 0 /\ b = 0 THEN 0
    ELSE LET x == a % 2   y == b % 2
             z == CASE op = "&" -> (IF x = 1 /\ y = 1 THEN 1 ELSE 0)
                    [] op = "|" -> (IF x = 1 \/ y = 1 THEN 1 ELSE 0)
                    [] OTHER -> (IF x # y THEN 1 ELSE 0)
         IN z * w + BitOp(op, a \div 2, b \div 2, 2 * w)

(* Feature tags: constructs whose C rendering is known or suspected to differ from Python; computed on the
   values the program actually computes, so a tag is a predicate over the stimulus and its execution here. *)
ArithFeat(op, a, b) ==
    IF ~IsNum(a) \/ ~IsNum(b) THEN {}
    ELSE (IF op = "/" /\ IsInty(a) /\ IsInty(b) THEN {"truediv-of-ints"} ELSE {})
    \cup (IF op = "//" /\ IsInty(a) /\ IsInty(b) /\ AsInt(b) # 0 /\ AsInt(a) % Abs(AsInt(b)) # 0 /\ ((AsInt(a) < 0) # (AsInt(b) < 0))
          THEN {"floordiv-opposite-signs"} ELSE {})
    \cup (IF op = "%" /\ IsInty(a) /\ IsInty(b) /\ AsInt(b) # 0 /\ AsInt(a) % Abs(AsInt(b)) # 0 /\ ((AsInt(a) < 0) # (AsInt(b) < 0))
          THEN {"mod-opposite-signs"} ELSE {})
    \cup (IF op \in {"//", "%"} /\ (a.t = "f" \/ b.t = "f") THEN {"float-floordiv-or-mod"} ELSE {})
    \cup (IF op = "**" THEN {"pow"} ELSE {})
    \cup (IF a.t = "b" \/ b.t = "b" THEN {"bool-arith"} ELSE {})

(* token concatenation: adjacent text tokens fuse, as they do in the printed line *)
RECURSIVE Fuse(_, _)
Fuse(acc, ts) ==
    IF ts = <<>> THEN acc
    ELSE IF acc # <<>> /\ acc[Len(acc)].k = "t" /\ ts[1].k = "t"
         THEN Fuse([acc EXCEPT ![Len(acc)] = TT(@.v \o ts[1].v)], Tail(ts))
         ELSE Fuse(Append(acc, ts[1]), Tail(ts))
Cat(a, b) == Fuse(a, b)

Arith(op, a, b) ==
    IF ~IsNum(a) \/ ~IsNum(b) THEN
        (IF op = "+" /\ a.t = "s" /\ b.t = "s" THEN VS(Cat(a.v, b.v)) ELSE ERR)
    ELSE IF op \in {"&", "|", "^", "<<", ">>"} THEN
        (IF ~IsInty(a) \/ ~IsInty(b) \/ AsInt(a) < 0 \/ AsInt(b) < 0 THEN ERR
         ELSE IF op = "<<" THEN (IF AsInt(b) > 14 THEN ERR ELSE ChkI(AsInt(a) * Pow(2, AsInt(b))))
         ELSE IF op = ">>" THEN (IF AsInt(b) > 14 THEN ERR ELSE ChkI(AsInt(a) \div Pow(2, AsInt(b))))
         ELSE ChkI(BitOp(op, AsInt(a), AsInt(b), 1)))
    ELSE IF a.t = "f" \/ b.t = "f" \/ op = "/" THEN
        LET an == Num(a)  ad == Den(a)  bn == Num(b)  bd == Den(b) IN
        (CASE op = "+" -> Norm(an * bd + bn * ad, ad * bd)
           [] op = "-" -> Norm(an * bd - bn * ad, ad * bd)
           [] op = "*" -> Norm(an * bn, ad * bd)
           [] op = "/" -> (IF bn = 0 THEN ERR ELSE Norm(an * bd, ad * bn))
           [] op = "//" -> (IF bn = 0 THEN ERR ELSE Norm(FloorDiv(an * bd, ad * bn), 1))
           [] op = "%" -> (IF bn = 0 THEN ERR ELSE
                           LET q == FloorDiv(an * bd, ad * bn) IN Norm(an * bd - q * bn * ad, ad * bd))
           [] op = "**" -> (IF b.t = "f" \/ AsInt(b) < 0 \/ AsInt(b) > 6 THEN ERR ELSE Norm(Pow(an, AsInt(b)), Pow(ad, AsInt(b))))
           [] OTHER -> ERR)
    ELSE LET x == AsInt(a)  y == AsInt(b) IN
        (CASE op = "+" -> ChkI(x + y)
           [] op = "-" -> ChkI(x - y)
           [] op = "*" -> ChkI(x * y)
           [] op = "//" -> (IF y = 0 THEN ERR ELSE ChkI(FloorDiv(x, y)))
           [] op = "%" -> (IF y = 0 THEN ERR ELSE ChkI(PyMod(x, y)))
           [] op = "**" -> (IF y < 0 \/ y > 15 THEN ERR ELSE ChkI(Pow(x, y)))
           [] OTHER -> ERR)

Less(a, b) == Num(a) * Den(b) < Num(b) * Den(a)
EqV(a, b) == IF IsNum(a) /\ IsNum(b) THEN Num(a) * Den(b) = Num(b) * Den(a)
             ELSE IF a.t = b.t THEN a = b ELSE FALSE
Cmp(op, a, b) ==
    IF a.t = "l" \/ b.t = "l" THEN ERR
    ELSE IF op = "==" THEN VB(EqV(a, b)) ELSE IF op = "!=" THEN VB(~EqV(a, b))
    ELSE IF ~IsNum(a) \/ ~IsNum(b) THEN ERR
    ELSE (CASE op = "<" -> VB(Less(a, b)) [] op = "<=" -> VB(~Less(b, a))
            [] op = ">" -> VB(Less(b, a)) [] op = ">=" -> VB(~Less(a, b)) [] OTHER -> ERR)

ToToks(v) == CASE v.t = "i" -> <<TN(v.v, 1)>>
               [] v.t = "b" -> <<TN(IF v.v THEN 1 ELSE 0, 1)>>
               [] v.t = "f" -> <<TN(v.n, v.d)>>
               [] v.t = "s" -> v.v
               [] OTHER -> <<TT("?")>>
(* a string is "plain" when it has no numeric token next to another token in a way the line tokenizer could
   re-split differently; the generator keeps separators, the spec flags the rest as ill-defined *)
RECURSIVE TokLen(_)
TokLen(ts) == IF ts = <<>> THEN 0
              ELSE (IF ts[1].k = "t" THEN Len(ts[1].v) ELSE IF ts[1].d = 1 THEN Len(ToString(ts[1].n)) ELSE -100000) + TokLen(Tail(ts))
Truthy(v, heap) == CASE v.t = "i" -> v.v # 0 [] v.t = "b" -> v.v [] v.t = "f" -> v.n # 0
                     [] v.t = "s" -> v.v # <<>> [] v.t = "l" -> heap[v.id] # <<>> [] OTHER -> FALSE

-----------------------------------------------------------------------------
(* Machine state threaded through evaluation:
   g globals, l locals (NoLocals at top level), gl names declared global in the running function, h heap of
   lists, out events, ok well-defined, fuel, sig in n(ormal)/b(reak)/c(ontinue)/r(eturn), ret value, depth,
   inp cursor into the scripted analog input, ty name -> set of runtime types held, feat feature tags *)
NoLocals == [none |-> TRUE]
HasLocals(s) == s.l # NoLocals
Bad(s) == [s EXCEPT !.ok = FALSE]
Feat(s, f) == [s EXCEPT !.feat = @ \cup f]
Lookup(s, n) == IF HasLocals(s) /\ n \in DOMAIN s.l THEN s.l[n]
                ELSE IF n \in DOMAIN s.g THEN s.g[n] ELSE ERR
TyOf(v, s) == IF v.t = "l" THEN "list" ELSE v.t
Store(s, n, v) ==
    LET loc == HasLocals(s) /\ n \notin s.gl
        key == IF loc THEN s.fn \o "." \o n ELSE n
        s1 == [s EXCEPT !.ty = (key :> ((IF key \in DOMAIN s.ty THEN s.ty[key] ELSE {}) \cup {TyOf(v, s)})) @@ @,
                        !.ty0 = IF key \in DOMAIN @ THEN @ ELSE (key :> TyOf(v, s)) @@ @] IN
    IF loc THEN [s1 EXCEPT !.l = (n :> v) @@ @]
    ELSE [s1 EXCEPT !.g = (n :> v) @@ @,
                    !.born = IF s.inloop /\ n \notin DOMAIN s.g THEN @ \cup {n} ELSE @,
                    !.fresh = @ \cup {n}]
Emit(s, e) == [s EXCEPT !.out = Append(@, e)]
R(v, s) == [v |-> v, s |-> s]
Alloc(s, xs) == LET id == Len(s.h) + 1 IN
               R(VL(id), [(IF s.inloop THEN Feat(s, {"list-created-in-loop"}) ELSE s) EXCEPT !.h = Append(@, xs)])

(* mutation of a list that another name also refers to *)
MutFeat(s, n, id) ==
    IF (\E m \in DOMAIN s.g : m # n /\ s.g[m] = VL(id)) \/ (HasLocals(s) /\ \E m \in DOMAIN s.l : m # n /\ s.l[m] = VL(id))
    THEN {"list-alias-mutation"} ELSE {}

Prog == Progs[pid]
Defs == Prog.defs
Ain == Prog.ain

(* does evaluating e call a user function or read an input (i.e. can evaluating it twice be observed)? *)
RECURSIVE HasCall(_)
HasCall(e) ==
    CASE e.k \in {"int", "float", "bool", "str", "var"} -> FALSE
      [] e.k = "aread" -> TRUE
      [] e.k = "un" -> HasCall(e.e)
      [] e.k = "bin" -> HasCall(e.l) \/ HasCall(e.r)
      [] e.k = "cmp" -> HasCall(e.first) \/ \E i \in 1..Len(e.rest) : HasCall(e.rest[i].e)
      [] e.k = "boolop" -> \E i \in 1..Len(e.es) : HasCall(e.es[i])
      [] e.k = "ifexp" -> HasCall(e.c) \/ HasCall(e.a) \/ HasCall(e.b)
      [] e.k = "call" -> e.f \in DOMAIN Defs \/ \E i \in 1..Len(e.args) : HasCall(e.args[i])
      [] e.k = "index" -> HasCall(e.e) \/ HasCall(e.i)
      [] OTHER -> TRUE

(* two or more operands of one call / list display / f-string whose evaluation can be observed: Python evaluates them left to
   right; the emitted C++ passes them as function arguments or `+` operands, whose order C++ leaves open (tag multi-effect-operands) *)
MultiEffect(es) == Cardinality({i \in 1..Len(es) : HasCall(es[i])}) >= 2
OrderFeat(es, s) == IF MultiEffect(es) THEN Feat(s, {"multi-effect-operands"}) ELSE s

RECURSIVE Eval(_, _), EvalSeq(_, _, _), CmpChain(_, _, _, _, _), BoolChain(_, _, _, _, _), Exec(_, _, _),
          CallFn(_, _, _), FmtParts(_, _, _, _), CompList(_, _, _, _, _, _)

EvalSeq(es, i, s) ==
    IF i > Len(es) THEN R(<<>>, s)
    ELSE LET h == Eval(es[i], s)  t == EvalSeq(es, i + 1, h.s) IN R(<<h.v>> \o t.v, t.s)

CmpChain(left, rest, i, s, n) ==
    IF i > Len(rest) THEN R(VB(TRUE), s)
    ELSE LET r == Eval(rest[i].e, s)
             c == IF IsErr(r.v) THEN ERR ELSE Cmp(rest[i].op, left, r.v) IN
         IF IsErr(c) THEN R(ERR, r.s)
         ELSE IF ~c.v THEN R(VB(FALSE), r.s) ELSE CmpChain(r.v, rest, i + 1, r.s, n)

BoolChain(op, es, i, last, s) ==
    IF i > Len(es) THEN R(last, s)
    ELSE LET r == Eval(es[i], s) IN
         IF IsErr(r.v) THEN r
         ELSE IF op = "and" /\ ~Truthy(r.v, r.s.h) THEN r
         ELSE IF op = "or" /\ Truthy(r.v, r.s.h) THEN r
         ELSE BoolChain(op, es, i + 1, r.v, r.s)

FmtParts(ps, i, acc, s) ==
    IF i > Len(ps) THEN R(VS(acc), s)
    ELSE IF ps[i].k = "lit" THEN FmtParts(ps, i + 1, Cat(acc, ps[i].toks), s)
    ELSE LET r == Eval(ps[i].e, s) IN
         IF IsErr(r.v) \/ r.v.t \in {"l", "none"} THEN R(ERR, r.s) ELSE FmtParts(ps, i + 1, Cat(acc, ToToks(r.v)), r.s)

(* the loop variable of a comprehension lives in its own scope: it is bound for the element expression only, it
   does not change what the name means afterwards and it is not an assignment to the name *)
BindRaw(s, n, v) == IF HasLocals(s) THEN [s EXCEPT !.l = (n :> v) @@ @] ELSE [s EXCEPT !.g = (n :> v) @@ @]
Unbind(s, n) == IF HasLocals(s) THEN [s EXCEPT !.l = [m \in (DOMAIN @) \ {n} |-> @[m]]]
                ELSE [s EXCEPT !.g = [m \in (DOMAIN @) \ {n} |-> @[m]]]
CompList(e, var, j, stop, acc, s) ==      \* [e for var in range(stop)]
    IF j >= stop \/ ~s.ok THEN R(acc, s)
    ELSE LET r == Eval(e, BindRaw(s, var, VI(j))) IN
         IF IsErr(r.v) THEN R(<<ERR>>, r.s) ELSE CompList(e, var, j + 1, stop, Append(acc, r.v), r.s)

MinMax(f, a) ==
    LET RECURSIVE Best(_, _)
        Best(i, b) == IF i > Len(a) THEN b
                      ELSE Best(i + 1, IF f = "min" THEN (IF Less(a[i], b) THEN a[i] ELSE b) ELSE (IF Less(b, a[i]) THEN a[i] ELSE b))
    IN Best(2, a[1])

Builtin(f, a, s) ==
    CASE f = "abs" /\ Len(a) = 1 /\ IsNum(a[1]) -> (IF a[1].t = "f" THEN VF(Abs(a[1].n), a[1].d) ELSE ChkI(Abs(AsInt(a[1]))))
      [] f = "len" /\ Len(a) = 1 /\ a[1].t = "l" -> VI(Len(s.h[a[1].id]))
      [] f = "len" /\ Len(a) = 1 /\ a[1].t = "s" -> (IF TokLen(a[1].v) < 0 THEN ERR ELSE VI(TokLen(a[1].v)))
      [] f = "int" /\ Len(a) = 1 /\ IsNum(a[1]) -> (IF a[1].t = "f" THEN ChkI(TruncDiv(a[1].n, a[1].d)) ELSE VI(AsInt(a[1])))
      [] f = "float" /\ Len(a) = 1 /\ IsNum(a[1]) -> Norm(Num(a[1]), Den(a[1]))
      [] f = "bool" /\ Len(a) = 1 /\ a[1].t # "none" -> VB(Truthy(a[1], s.h))
      [] f = "str" /\ Len(a) = 1 /\ a[1].t \in {"i", "f", "s", "b"} -> VS(ToToks(a[1]))
      [] f \in {"min", "max"} /\ Len(a) >= 2 /\ (\A i \in 1..Len(a) : IsNum(a[i])) -> MinMax(f, a)
      [] OTHER -> ERR
BuiltinFeat(f, a) ==
    (IF f \in {"abs", "min", "max"} /\ (\E i \in 1..Len(a) : a[i].t = "f") THEN {"float-" \o f} ELSE {})
    \cup (IF f \in {"min", "max"} /\ Len(a) >= 2 /\ (\E i, j \in 1..Len(a) : a[i].t # a[j].t) THEN {"mixed-minmax"} ELSE {})
    \cup (IF f = "str" /\ Len(a) = 1 /\ a[1].t = "b" THEN {"str-of-bool"} ELSE {})
    \cup (IF f = "int" /\ Len(a) = 1 /\ a[1].t = "f" /\ a[1].n < 0 THEN {"int-of-negative-float"} ELSE {})

Eval(e, s) ==
    IF ~s.ok \/ s.fuel <= 0 THEN R(ERR, Bad(s)) ELSE
    LET s1 == [s EXCEPT !.fuel = @ - 1] IN
    CASE e.k = "int" -> R(VI(e.v), s1)
      [] e.k = "float" -> R(VF(e.n, e.d), s1)
      [] e.k = "bool" -> R(VB(e.v), s1)
      [] e.k = "str" -> R(VS(e.toks), s1)
      [] e.k = "var" -> R(Lookup(s1, e.n),
                          IF ~HasLocals(s1) /\ e.n \in s1.born /\ e.n \notin s1.fresh THEN Feat(s1, {"loop-born-carried"}) ELSE s1)
      [] e.k = "aread" ->     \* a run-time value: the next scripted ADC sample
           (IF s1.inp > Len(Ain) THEN R(ERR, Bad(s1)) ELSE R(VI(Ain[s1.inp]), [s1 EXCEPT !.inp = @ + 1]))
      [] e.k = "un" -> LET r == Eval(e.e, s1) IN
           (IF IsErr(r.v) THEN r
            ELSE IF e.op = "not" THEN R(VB(~Truthy(r.v, r.s.h)), r.s)
            ELSE IF ~IsNum(r.v) THEN R(ERR, r.s)
            ELSE IF e.op = "-" THEN R(Arith("-", VI(0), r.v), r.s) ELSE R(Arith("+", VI(0), r.v), r.s))
      [] e.k = "bin" -> LET a == Eval(e.l, s1)  b == Eval(e.r, a.s) IN
           (IF IsErr(a.v) \/ IsErr(b.v) THEN R(ERR, b.s)
            ELSE R(Arith(e.op, a.v, b.v), Feat(b.s, ArithFeat(e.op, a.v, b.v))))
      [] e.k = "cmp" -> LET a == Eval(e.first, s1) IN
           (IF IsErr(a.v) THEN a
            ELSE CmpChain(a.v, e.rest, 1,
                          IF Len(e.rest) > 1 /\ (\E i \in 1..(Len(e.rest) - 1) : HasCall(e.rest[i].e))
                          THEN Feat(a.s, {"chained-cmp-call"}) ELSE a.s, Len(e.rest)))
      [] e.k = "boolop" -> LET r == BoolChain(e.op, e.es, 1, VB(e.op = "and"), s1) IN
           (IF IsErr(r.v) THEN r ELSE R(r.v, IF r.v.t # "b" THEN Feat(r.s, {"boolop-yields-operand"}) ELSE r.s))
      [] e.k = "ifexp" -> LET c == Eval(e.c, s1) IN
           (IF IsErr(c.v) THEN c ELSE IF Truthy(c.v, c.s.h) THEN Eval(e.a, c.s) ELSE Eval(e.b, c.s))
      [] e.k = "fstr" -> FmtParts(e.parts, 1, <<>>,
                                  IF Cardinality({i \in 1..Len(e.parts) : e.parts[i].k = "fmt" /\ HasCall(e.parts[i].e)}) >= 2
                                  THEN Feat(s1, {"multi-effect-operands"}) ELSE s1)
      [] e.k = "list" -> LET r == EvalSeq(e.es, 1, OrderFeat(e.es, s1)) IN
           (IF \E i \in 1..Len(r.v) : IsErr(r.v[i]) THEN R(ERR, r.s)
            ELSE LET a == Alloc(r.s, r.v) IN
                 \* a literal with an element read from a sensor: no transpile-time length exists for it (hr), so the
                 \* known finding len-after-nested-mutation (a length folded at transpile time) does not apply to it
                 IF \E i \in 1..Len(e.es) : e.es[i].k = "aread" THEN R(a.v, [a.s EXCEPT !.hr = @ \cup {a.v.id}]) ELSE a)
      [] e.k = "comp" -> LET c == Eval(e.count, s1) IN
           (IF IsErr(c.v) \/ c.v.t # "i" THEN R(ERR, c.s)
            ELSE LET scope == IF HasLocals(c.s) THEN c.s.l ELSE c.s.g
                     had == e.var \in DOMAIN scope
                     old == IF had THEN scope[e.var] ELSE ERR
                     r == CompList(e.e, e.var, 0, c.v.v, <<>>, c.s)
                     back == IF c.v.v <= 0 THEN r.s ELSE IF had THEN BindRaw(r.s, e.var, old) ELSE Unbind(r.s, e.var) IN
                 IF \E i \in 1..Len(r.v) : IsErr(r.v[i]) THEN R(ERR, back) ELSE Alloc(back, r.v))
      [] e.k = "index" -> LET a == Eval(e.e, s1)  i == Eval(e.i, a.s) IN
           (IF IsErr(a.v) \/ IsErr(i.v) \/ a.v.t # "l" \/ i.v.t # "i" THEN R(ERR, i.s)
            ELSE LET xs == i.s.h[a.v.id]   n == Len(xs)   j == IF i.v.v < 0 THEN i.v.v + n ELSE i.v.v IN
                 IF j < 0 \/ j >= n THEN R(ERR, Bad(i.s))
                 ELSE R(xs[j + 1], IF i.v.v < 0 THEN Feat(i.s, {"negative-index"}) ELSE i.s))
      [] e.k = "in" -> LET x == Eval(e.x, s1)  a == Eval(e.e, x.s) IN
           (IF IsErr(x.v) \/ IsErr(a.v) \/ a.v.t # "l" THEN R(ERR, a.s)
            ELSE R(VB(\E j \in 1..Len(a.s.h[a.v.id]) : EqV(a.s.h[a.v.id][j], x.v)), Feat(a.s, {"membership"})))
      [] e.k = "call" -> LET r == EvalSeq(e.args, 1, IF e.f \in {"abs", "min", "max"} THEN s1 ELSE OrderFeat(e.args, s1)) IN
           (IF \E i \in 1..Len(r.v) : IsErr(r.v[i]) THEN R(ERR, r.s)
            ELSE IF e.f \in DOMAIN Defs THEN CallFn(e.f, r.v, r.s)
            ELSE R(Builtin(e.f, r.v, r.s),
                   Feat(r.s, BuiltinFeat(e.f, r.v) \cup
                             (IF e.f \in {"abs", "min", "max"} /\ (\E i \in 1..Len(e.args) : HasCall(e.args[i])) THEN {"macro-arg-call"} ELSE {})
                             \cup (IF e.f = "len" /\ Len(r.v) = 1 /\ r.v[1].t = "l" /\ r.v[1].id \in r.s.hm \ r.s.hr THEN {"len-after-nested-mutation"} ELSE {}))))
      [] OTHER -> R(ERR, s1)

CallFn(f, args, s) ==
    LET d == Defs[f] IN
    IF Len(args) # Len(d.params) \/ s.depth >= 4 THEN R(ERR, Bad(s)) ELSE
    LET frame == [n \in {d.params[i] : i \in 1..Len(d.params)} |-> args[CHOOSE i \in 1..Len(d.params) : d.params[i] = n]]
        s0 == [s EXCEPT !.l = IF Len(d.params) = 0 THEN [x \in {} |-> ERR] ELSE frame,
                        !.gl = {d.globals[i] : i \in 1..Len(d.globals)}, !.depth = @ + 1, !.sig = "n", !.ret = VNone, !.fn = f,
                        !.ty = [p \in {f \o "." \o d.params[i] : i \in 1..Len(d.params)} |->
                                   (IF p \in DOMAIN s.ty THEN s.ty[p] ELSE {}) \cup
                                   {TyOf(args[CHOOSE i \in 1..Len(d.params) : f \o "." \o d.params[i] = p], s)}] @@ @]
        s2 == Exec(d.body, 1, s0)
        rk == f \o ".return"
        s3 == [s2 EXCEPT !.l = s.l, !.gl = s.gl, !.depth = s.depth, !.sig = "n", !.ret = VNone, !.fn = s.fn,
                         !.ty = (rk :> ((IF rk \in DOMAIN s2.ty THEN s2.ty[rk] ELSE {}) \cup {TyOf(s2.ret, s2)})) @@ @]
    IN R(s2.ret, s3)

(* execute block b from index i *)
Exec(b, i, s) ==
    IF ~s.ok \/ s.sig # "n" \/ i > Len(b) THEN s
    ELSE IF s.fuel <= 0 THEN Bad(s)
    ELSE LET x == b[i]   s1 == [s EXCEPT !.fuel = @ - 1] IN
     LET after ==
      CASE x.k = "assign" -> LET r == Eval(x.e, s1) IN
              (IF IsErr(r.v) \/ r.v.t = "none" THEN Bad(r.s)
               ELSE Store(IF r.v.t = "l" /\ x.e.k = "var" THEN Feat(r.s, {"list-alias-created"}) ELSE r.s, x.n, r.v))
        [] x.k = "aug" -> LET r == Eval(x.e, s1)
                              cur == Lookup(r.s, x.n)
                              v == IF IsErr(cur) \/ IsErr(r.v) THEN ERR ELSE Arith(x.op, cur, r.v) IN
              (IF IsErr(v) THEN Bad(r.s) ELSE Store(Feat(r.s, ArithFeat(x.op, cur, r.v)), x.n, v))
        [] x.k = "tuple" -> LET r == EvalSeq(x.es, 1, s1) IN
              (IF Len(r.v) # Len(x.ns) \/ \E j \in 1..Len(r.v) : IsErr(r.v[j]) THEN Bad(r.s)
               ELSE LET RECURSIVE StAll(_, _)
                        StAll(j, ss) == IF j > Len(x.ns) THEN ss ELSE StAll(j + 1, Store(ss, x.ns[j], r.v[j]))
                    IN StAll(1, r.s))
        [] x.k = "write" -> LET r == Eval(x.e, s1) IN
              (IF IsErr(r.v) \/ r.v.t \in {"none", "l"} THEN Bad(r.s) ELSE Emit(r.s, [e |-> "w", toks |-> ToToks(r.v), vt |-> r.v.t]))
        [] x.k = "sleep" -> LET r == Eval(x.e, s1) IN
              (IF IsErr(r.v) \/ r.v.t # "i" \/ r.v.v < 0 THEN Bad(r.s) ELSE Emit(r.s, [e |-> "d", ms |-> r.v.v]))
        [] x.k = "dwrite" -> LET r == Eval(x.e, s1) IN
              (IF IsErr(r.v) \/ ~IsInty(r.v) \/ AsInt(r.v) \notin {0, 1} THEN Bad(r.s) ELSE Emit(r.s, [e |-> "dw", p |-> x.pin, v |-> AsInt(r.v)]))
        [] x.k = "awrite" -> LET r == Eval(x.e, s1) IN
              (IF IsErr(r.v) \/ r.v.t # "i" \/ r.v.v < 0 \/ r.v.v > 255 THEN Bad(r.s) ELSE Emit(r.s, [e |-> "aw", p |-> x.pin, v |-> r.v.v]))
        [] x.k = "pmode" -> Emit(s1, [e |-> "pm", p |-> x.pin, m |-> x.m])
        [] x.k = "expr" -> LET r == Eval(x.e, s1) IN (IF IsErr(r.v) THEN Bad(r.s) ELSE r.s)
        [] x.k = "append" -> LET a == Lookup(s1, x.n)   r == Eval(x.e, s1) IN
              (IF IsErr(a) \/ a.t # "l" \/ IsErr(r.v) \/ r.v.t \in {"none", "l"} THEN Bad(r.s)
               ELSE [Feat(r.s, MutFeat(r.s, x.n, a.id) \cup
                                   (IF r.v.t = "f" \/ (\E j \in 1..Len(r.s.h[a.id]) : r.s.h[a.id][j].t = "f") THEN {"list-append-float"} ELSE {}))
                     EXCEPT !.h[a.id] = Append(@, r.v), !.hm = IF r.s.nest > 0 THEN @ \cup {a.id} ELSE @])
        [] x.k = "remove" -> LET a == Lookup(s1, x.n)   r == Eval(x.e, s1) IN
              (IF IsErr(a) \/ a.t # "l" \/ IsErr(r.v) THEN Bad(r.s)
               ELSE LET xs == r.s.h[a.id]   hit == {j \in 1..Len(xs) : EqV(xs[j], r.v)} IN
                    IF hit = {} THEN Bad(r.s)      \* ValueError in Python: outside the property
                    ELSE LET j == CHOOSE m \in hit : \A o \in hit : m <= o IN
                         [Feat(r.s, MutFeat(r.s, x.n, a.id)) EXCEPT !.h[a.id] = SubSeq(xs, 1, j - 1) \o SubSeq(xs, j + 1, Len(xs)),
                                                                    !.hm = IF r.s.nest > 0 THEN @ \cup {a.id} ELSE @])
        [] x.k = "pass" -> s1
        [] x.k = "break" -> [s1 EXCEPT !.sig = "b"]
        [] x.k = "continue" -> [Feat(s1, {"continue"}) EXCEPT !.sig = "c"]
        [] x.k = "return" -> (IF x.has THEN LET r == Eval(x.e, s1) IN
                                   (IF IsErr(r.v) THEN Bad(r.s) ELSE [r.s EXCEPT !.sig = "r", !.ret = r.v])
                              ELSE [s1 EXCEPT !.sig = "r", !.ret = VNone])
        [] x.k = "if" -> LET RECURSIVE Br(_, _)
                             Br(j, ss) == IF j > Len(x.branches) THEN Exec(x.orelse, 1, ss)
                                          ELSE LET c == Eval(x.branches[j].c, ss) IN
                                               IF IsErr(c.v) THEN Bad(c.s)
                                               ELSE IF Truthy(c.v, c.s.h) THEN Exec(x.branches[j].body, 1, c.s) ELSE Br(j + 1, c.s)
                             r0 == Br(1, [s1 EXCEPT !.nest = @ + 1])
                         IN [r0 EXCEPT !.nest = s1.nest]
        [] x.k = "while" -> LET RECURSIVE W(_)
                                W(ss) == IF ~ss.ok THEN ss ELSE IF ss.fuel <= 0 THEN Bad(ss) ELSE
                                         LET c == Eval(x.c, ss) IN
                                         IF IsErr(c.v) THEN Bad(c.s) ELSE IF ~Truthy(c.v, c.s.h) THEN c.s
                                         ELSE LET b1 == Exec(x.body, 1, c.s) IN
                                              IF b1.sig = "b" THEN [b1 EXCEPT !.sig = "n"]
                                              ELSE IF b1.sig = "r" THEN b1
                                              ELSE W([b1 EXCEPT !.sig = "n", !.fuel = @ - 1])
                                r0 == W([s1 EXCEPT !.nest = @ + 1])
                            IN [r0 EXCEPT !.nest = s1.nest]
        [] x.k = "for" -> LET a == Eval(x.start, s1)   z == Eval(x.stop, a.s)   t == Eval(x.step, z.s) IN
              (IF IsErr(a.v) \/ IsErr(z.v) \/ IsErr(t.v) \/ a.v.t # "i" \/ z.v.t # "i" \/ t.v.t # "i" \/ t.v.v = 0 THEN Bad(t.s) ELSE
               LET RECURSIVE Fo(_, _)
                   Fo(j, ss) == IF ~ss.ok \/ (t.v.v > 0 /\ j >= z.v.v) \/ (t.v.v < 0 /\ j <= z.v.v) THEN ss
                                ELSE IF ss.fuel <= 0 THEN Bad(ss) ELSE
                                LET b1 == Exec(x.body, 1, Store([ss EXCEPT !.fuel = @ - 1], x.v, VI(j))) IN
                                IF b1.sig = "b" THEN [b1 EXCEPT !.sig = "n"]
                                ELSE IF b1.sig = "r" THEN b1
                                ELSE Fo(j + t.v.v, [b1 EXCEPT !.sig = "n"])
                   r0 == Fo(a.v.v, [(IF t.v.v # 1 \/ a.v.v # 0 THEN Feat(t.s, {"range-start-step"}) ELSE t.s) EXCEPT !.nest = @ + 1])
               IN [r0 EXCEPT !.nest = s1.nest])
        [] OTHER -> Bad(s1)
     IN Exec(b, i + 1, after)

-----------------------------------------------------------------------------
(* live list data of the Python program: elements of the lists reachable from global names *)
ReachIds(s) == {s.g[n].id : n \in {m \in DOMAIN s.g : s.g[m].t = "l"}}
RECURSIVE SumLens(_, _)
SumLens(s, ids) == IF ids = {} THEN 0 ELSE LET x == CHOOSE y \in ids : TRUE IN Len(s.h[x]) + SumLens(s, ids \ {x})
PyLive(s) == SumLens(s, ReachIds(s))
Sampled(s) == [s EXCEPT !.lv = Append(@, PyLive(s))]

S0 == [g |-> [x \in {} |-> ERR], l |-> NoLocals, gl |-> {}, h |-> <<>>, out |-> <<>>, ok |-> TRUE, fuel |-> FUEL0,
       sig |-> "n", ret |-> VNone, depth |-> 0, fn |-> "", inp |-> 1, born |-> {}, fresh |-> {}, inloop |-> FALSE, nest |-> 0, hm |-> {}, hr |-> {}, lv |-> <<>>, ty |-> [x \in {} |-> {}], ty0 |-> [x \in {} |-> "none"], feat |-> {}]
Init == pid \in 1..Len(Progs) /\ st = S0 /\ phase = "boot" /\ pass = 0
Setup == /\ phase = "boot" /\ phase' = "setup" /\ pass' = 0
         /\ st' = Sampled(Exec(Prog.setup, 1, st)) /\ UNCHANGED pid
LoopPass == /\ phase \in {"setup", "loop"} /\ pass < Prog.npass /\ st.ok /\ st.sig = "n" /\ Prog.hasloop
            /\ phase' = "loop" /\ pass' = pass + 1
            /\ st' = Sampled(Exec(Prog.loop, 1, [Emit(st, [e |-> "pass", k |-> pass + 1]) EXCEPT !.fuel = FUEL0, !.inloop = TRUE, !.fresh = {}, !.nest = 1]))
            /\ UNCHANGED pid
Next == Setup \/ LoopPass
Done == phase # "boot" /\ (~st.ok \/ st.sig # "n" \/ ~Prog.hasloop \/ pass = Prog.npass)
WellDefined == st.ok /\ st.sig = "n"
LiveLen == LET RECURSIVE Sum(_) Sum(i) == IF i = 0 THEN 0 ELSE Len(st.h[i]) + Sum(i - 1) IN Sum(Len(st.h))
=============================================================================
