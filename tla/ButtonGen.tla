------------------------------ MODULE ButtonGen ------------------------------
(* Behaviour generation for Button (firmware side): a behaviour = a sampled signal (first element: the sample
   taken in setup) and the number of is_pressed() calls in every pass.
   Pattern k \in 0..MaxReads: the same number k of calls in every pass (one compiled firmware per k);
   Pattern 9: every pass chooses its own number 0..MaxReads (rendered with run-time guards).
   BFS (CONSTRAINT Emit) prints every complete prefix up to MaxLen samples; -simulate uses EmitSim. *)
EXTENDS Button, Json
CONSTANTS Patterns, MaxLen
VARIABLES h, k, kp
gvars == <<vars, h, k, kp>>

GInit == Init /\ side = "fw" /\ handler /\ h = <<Ev("setup", 0)>> /\ k \in Patterns /\ kp = 0
Log(e) == h' = Append(h, e)
GNext ==
    \/ \E s \in {0, 1} : Boot(s) /\ Log(Ev("sample", s)) /\ UNCHANGED <<k, kp>>
    \/ /\ (phase = "loop" => Len(reads) = kp /\ sampledThisPass = 1)
       /\ PassStart /\ Log(Ev("pass", 0)) /\ UNCHANGED k
       /\ kp' \in (IF k = 9 THEN 0..MaxReads ELSE {k})
    \/ \E s \in {0, 1} : Poll(s) /\ Log(Ev("sample", s)) /\ UNCHANGED <<k, kp>>
    \/ Click /\ Log(Ev("click", 0)) /\ UNCHANGED <<k, kp>>
    \/ Len(reads) < kp /\ IsPressed /\ Log(Ev("read", value)) /\ UNCHANGED <<k, kp>>

Complete == owed = 0 /\ value # None /\ (phase = "loop" => sampledThisPass = 1 /\ Len(reads) = kp)
RECURSIVE ReadsPerPass(_, _, _, _)
ReadsPerPass(i, cur, acc, started) ==      \* number of read events per pass, from the history
    IF i > Len(h) THEN (IF started THEN Append(acc, cur) ELSE acc)
    ELSE IF h[i].k = "pass" THEN ReadsPerPass(i + 1, 0, IF started THEN Append(acc, cur) ELSE acc, TRUE)
    ELSE ReadsPerPass(i + 1, cur + (IF h[i].k = "read" THEN 1 ELSE 0), acc, started)
Out == [sig |-> sig, k |-> k, reads |-> ReadsPerPass(1, 0, <<>>, FALSE), clicks |-> clicks, ev |-> h]
Emit == IF Complete THEN PrintT(ToJson(Out)) /\ Len(sig) < MaxLen ELSE TRUE
EmitSim == IF Complete /\ Len(sig) >= MaxLen THEN PrintT(ToJson(Out)) /\ FALSE ELSE TRUE

(* The two layers agree: replaying the canonical history through the step relation is allowed at every event. *)
RECURSIVE Replay(_, _)
Replay(s, i) == IF i > Len(h) THEN "" ELSE IF Diff(s, h[i]) # "" THEN Diff(s, h[i]) ELSE Replay(Apply(s, h[i]), i + 1)
CanonicalIsAllowed == Replay(InitRec("fw", TRUE), 1) = ""
=============================================================================
