SPECIFICATION ASpec
CONSTANTS
  Alphabet <- AlphabetQ
  MaxLen = 5
INVARIANT StepMatchesDeclarative
INVARIANT CloseMatchesDeclarative
INVARIANT LegalKeepsInvariants
CHECK_DEADLOCK FALSE
