SPECIFICATION Spec
CONSTANTS
  N = 3
  MaxPasses = 4
INVARIANT OncePerTransition
PROPERTY NeverMoreThanButtons
CHECK_DEADLOCK FALSE
