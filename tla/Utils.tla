------------------------------- MODULE Utils -------------------------------
(* Reduino.Utils on the host: map() and sleep().
   map(value, from_low, from_high, to_low, to_high) is the exact affine map through (from_low, to_low) and
   (from_high, to_high), and refuses a zero-width source range.
   sleep(ms) waits ms/1000 seconds exactly once (one call of the sleep function) and refuses negatives.
   All numeric arguments are integers in units of 1/U (U = 8: exact in binary floating point, so the float and
   the Fraction rendering of a call denote the same real numbers).  Rationals are reduced pairs <<n, d>>, d > 0. *)
EXTENDS Integers, Sequences, TLC

U == 8
CONSTANTS MapVals, FromRanges, ToRanges, MapTypings, SleepVals, SleepTypings, Vias
VARIABLES res, ret, slept, last
vars == <<res, ret, slept, last>>

Abs(x) == IF x < 0 THEN -x ELSE x
RECURSIVE Gcd(_, _)
Gcd(a, b) == IF b = 0 THEN a ELSE Gcd(b, a % b)
Red(n, d) == LET g == Gcd(Abs(n), d) IN <<n \div g, d \div g>>        \* d > 0

Call(act, a, ty, via) == [act |-> act, a |-> a, ty |-> ty, via |-> via]
NoCall == Call("none", <<>>, "", "")
\* what a call returned: k = "none" (None) | "frac" (an exact rational p/q, in units of 1/U) |
\* "float" (a binary float x with x*U = i + (f1*10^8 + f2*10^4 + f3) / 10^12, fraction rounded to 10^-12) | "other"
Ret(k, p, q, i, f1, f2, f3) == [k |-> k, p |-> p, q |-> q, i |-> i, f1 |-> f1, f2 |-> f2, f3 |-> f3]
RNone == Ret("none", 0, 1, 0, 0, 0, 0)
RFrac(pq) == Ret("frac", pq[1], pq[2], 0, 0, 0, 0)

-----------------------------------------------------------------------------
(* map *)
ZeroSpan(c) == c.a[2] = c.a[3]
MapDen(c) == c.a[3] - c.a[2]
MapNum(c) == c.a[4] * (c.a[3] - c.a[2]) + (c.a[1] - c.a[2]) * (c.a[5] - c.a[4])    \* result * U = MapNum / MapDen
MapExact(c) == IF MapDen(c) > 0 THEN Red(MapNum(c), MapDen(c)) ELSE Red(-MapNum(c), -MapDen(c))
\* stimuli the 32-bit arithmetic of this module can decide
MapInRange(c) ==
    /\ \A i \in 1..5 : Abs(c.a[i]) <= 16400
    /\ ZeroSpan(c) \/ LET e == MapExact(c) IN Abs(e[1] \div e[2]) <= 2000000

(* Tolerance for a result computed in binary floating point: |x - exact| <= 10^-9 * (1 + |exact * U|) / U
   (+ 10^-12 for the decimal rendering of x), decided limb by limb in base 10^4 to stay inside 32 bits. *)
FloatClose(x, e) ==
    LET n == e[1]  d == e[2]
        I == n \div d          rem == n % d
        d1 == (rem * 10000) \div d   r1 == (rem * 10000) % d
        d2 == (r1 * 10000) \div d    r2 == (r1 * 10000) % d
        d3 == (r2 * 10000) \div d
        Tol == 1000 * (1 + Abs(I)) + 2
        D0 == x.i - I
    IN IF Abs(D0) > 1 THEN FALSE
       ELSE LET D1 == D0 * 10000 + x.f1 - d1 IN
            IF Abs(D1) > 20 THEN FALSE
            ELSE LET D2 == D1 * 10000 + x.f2 - d2 IN
                 IF Abs(D2) > 200000 THEN FALSE
                 ELSE Abs(D2 * 10000 + x.f3 - d3) <= Tol

MapStep(c, r, rt) ==
    IF ZeroSpan(c) THEN r = "raise"
    ELSE /\ r = "ok"
         /\ \/ rt.k = "frac" /\ <<rt.p, rt.q>> = MapExact(c)
            \/ rt.k = "float" /\ FloatClose(rt, MapExact(c))

-----------------------------------------------------------------------------
(* sleep: c.a[1] = duration in 1/U ms; the sleep function is called with seconds, logged as
   [us |-> whole microseconds (floor), pf |-> remaining fraction of a microsecond in 10^-6 us, rounded]. *)
SleepTol == 1000          \* 10^-9 s: the latitude of representing ms/1000 in binary floating point
SleepUs(c) == c.a[1] * 125
SleepClose(e, x) == (e.us = x /\ e.pf <= SleepTol) \/ (e.us = x - 1 /\ e.pf >= 1000000 - SleepTol)
SleepStep(c, r, rt, sl) ==
    IF c.a[1] < 0 THEN r = "raise" /\ sl = <<>>
    ELSE r = "ok" /\ rt.k = "none" /\ Len(sl) = 1 /\ SleepClose(sl[1], SleepUs(c))

Step(c, r, rt, sl) ==
    IF c.act = "map" THEN MapInRange(c) /\ MapStep(c, r, rt) /\ sl = <<>> ELSE SleepStep(c, r, rt, sl)

StepDiff(c, r, rt, sl) ==
    IF Step(c, r, rt, sl) THEN ""
    ELSE IF c.act = "map" THEN
         (IF ~MapInRange(c) THEN "stimulus-outside-spec-range"
          ELSE IF ZeroSpan(c) THEN "zero-span-accepted"
          ELSE IF r # "ok" THEN "valid-map-refused"
          ELSE IF sl # <<>> THEN "map-slept"
          ELSE IF rt.k = "frac" THEN "map-not-affine-exact"
          ELSE IF rt.k = "float" THEN "map-not-affine-float"
          ELSE "map-result-not-a-number")
    ELSE IF c.a[1] < 0 THEN (IF r # "raise" THEN "negative-sleep-accepted" ELSE "refused-sleep-slept")
    ELSE IF r # "ok" THEN "valid-sleep-refused"
    ELSE IF Len(sl) = 0 THEN "sleep-did-not-wait"
    ELSE IF Len(sl) > 1 THEN "sleep-waited-more-than-once"
    ELSE IF ~SleepClose(sl[1], SleepUs(c)) THEN "sleep-wrong-duration"
    ELSE "sleep-return-not-none"

-----------------------------------------------------------------------------
(* The machine used for model checking and generation: canonical outcomes. *)
MapCalls == {Call("map", <<v, f[1], f[2], t[1], t[2]>>, ty, "") : v \in MapVals, f \in FromRanges, t \in ToRanges, ty \in MapTypings}
SleepCalls == {Call("sleep", <<ms>>, ty, via) : ms \in SleepVals, ty \in SleepTypings, via \in Vias}
Integral(c) == \A i \in 1..Len(c.a) : c.a[i] % U = 0
WellTyped(c) == (c.ty = "int" => Integral(c)) /\ (c.ty = "bool" => c.a[1] \in {0, U})
Calls == {c \in MapCalls \cup SleepCalls : WellTyped(c) /\ (c.act = "map" => MapInRange(c))}   \* ill-defined stimuli are not generated

Init == res = "init" /\ ret = RNone /\ slept = <<>> /\ last = NoCall
Do(c) == /\ last' = c
         /\ IF c.act = "map"
            THEN slept' = <<>> /\ IF ZeroSpan(c) THEN res' = "raise" /\ ret' = RNone
                                  ELSE res' = "ok" /\ ret' = RFrac(MapExact(c))
            ELSE ret' = RNone /\ IF c.a[1] < 0 THEN res' = "raise" /\ slept' = <<>>
                                  ELSE res' = "ok" /\ slept' = <<[us |-> SleepUs(c), pf |-> 0]>>
Next == \E c \in Calls : Do(c)
Spec == Init /\ [][Next]_vars
NextOnce == last = NoCall /\ Next    \* NEXT for the exhaustive check: calls are independent of each other (no state)

-----------------------------------------------------------------------------
(* Properties named by C20. *)
CanonicalIsAllowed == last # NoCall => Step(last, res, ret, slept)
AllInRange == last.act = "map" => MapInRange(last)
ZeroSpanRefused == (last.act = "map" /\ ZeroSpan(last)) <=> (last.act = "map" /\ res = "raise")
MapEndpoints ==
    (last.act = "map" /\ res = "ok") =>
        /\ (last.a[1] = last.a[2] => <<ret.p, ret.q>> = Red(last.a[4], 1))
        /\ (last.a[1] = last.a[3] => <<ret.p, ret.q>> = Red(last.a[5], 1))
SleepExactlyOnce == (last.act = "sleep" /\ res = "ok") => slept = <<[us |-> 125 * last.a[1], pf |-> 0]>>
NegativeSleepRefused == (last.act = "sleep" /\ last.a[1] < 0) <=> (last.act = "sleep" /\ res = "raise")
RefusedSleepDoesNotWait == res = "raise" => slept = <<>>
(* Affinity as an algebraic law over the whole grid (constant-level, checked once by ASSUME in UtilsMC):
   the map of a midpoint is the midpoint of the maps (with the two endpoint equations this characterises the
   affine map on the grid).  Same ranges => same denominator, so numerators are compared. *)
MapMidpoint ==
    \A f \in FromRanges, t \in ToRanges : f[1] # f[2] =>
        \A a, b \in MapVals : ((a + b) % 2 = 0 /\ (a + b) \div 2 \in MapVals) =>
            LET N(v) == MapNum(Call("map", <<v, f[1], f[2], t[1], t[2]>>, "frac", ""))
            IN 2 * N((a + b) \div 2) = N(a) + N(b)
=============================================================================
