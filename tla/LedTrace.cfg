INIT TInit
NEXT TNext
CONSTANTS
  Brights = {}
  Durations = {}
  Times = {}
  StepsG = {}
  Patterns = {}
CONSTRAINT Verdict
CHECK_DEADLOCK FALSE
