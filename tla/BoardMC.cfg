INIT MInit
NEXT MNext
CONSTANT MaxLen = 4
INVARIANT MonitorExact
CHECK_DEADLOCK FALSE
