------------------------------- MODULE BoardMC -------------------------------
(* The monitor composed with an arbitrary environment: every event sequence up to MaxLen over a small alphabet.
   MonitorExact: the monitor accepts a history exactly when the declarative discipline holds for it. *)
EXTENDS Board
CONSTANT MaxLen
VARIABLE h
Pins == (1 :> "out") @@ (2 :> "inpu")
Buttons == {"b"}
Alphabet ==
    {[e |-> "phase", k |-> k] : k \in 0..2}
    \cup {[e |-> "pm", p |-> p, m |-> m] : p \in {1, 2, 3}, m \in {"in", "out", "inpu"}}
    \cup {[e |-> "out", p |-> p] : p \in {1, 3}} \cup {[e |-> "in", p |-> p] : p \in {2}}
    \cup {[e |-> "sbegin", b |-> b] : b \in {9600, 115200}} \cup {[e |-> "ser"], [e |-> "user"], [e |-> "handler"]}
    \cup {[e |-> "attach", s |-> 0], [e |-> "servo", s |-> 0], [e |-> "lcdinit", d |-> 0], [e |-> "lcd", d |-> 0]}
    \cup {[e |-> "stop", m |-> 0], [e |-> "drive", m |-> 0], [e |-> "poll", b |-> "b"]}
MInit == BInit /\ h = <<>>
MNext == /\ bad = "" /\ Len(h) < MaxLen
         /\ \E e \in Alphabet : Consume(e, Pins, Buttons) /\ h' = Append(h, e)
MonitorExact == (bad = "") <=> Discipline(h, Pins, Buttons)
=============================================================================
