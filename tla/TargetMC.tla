------------------------------ MODULE TargetMC ------------------------------
(* Exhaustive model checking of Target: all 2 (upload) x 2 (PlatformIO present) x 4 (pair) x 12 (no fault or a
   fault at one of the 11 steps) = 192 configurations, every order of events the specification allows.
   Deadlock checking is on: a call that has no result yet can always continue (Finished is the only rest).
   Vacuity guard: the set of (event, failed?) pairs that were actually taken is collected in a TLC register
   (run with -workers 1) and printed by the postcondition; the check requires every event in both outcomes. *)
EXTENDS Target, Json
ASSUME TLCSet(1, {})
Witness == TLCSet(1, TLCGet(1) \cup {<<st.last, st.last \in st.failed, st.result>>})
Taken == PrintT(ToJson([taken |-> TLCGet(1)]))
=============================================================================
