------------------------------ MODULE BoardTrace ------------------------------
(* Batch validation of firmware traces against the Board monitor. *)
EXTENDS Board, Json, IOUtils
Traces == JsonDeserialize(IOEnv.TRACE_FILE)   \* [{id, pins: [[pin, mode]...], buttons: [ids], ev: [...]}...]
VARIABLES tid, l
T == Traces[tid]
PinsOf(t) == [p \in {t.pins[i][1] : i \in 1..Len(t.pins)} |-> (CHOOSE i \in 1..Len(t.pins) : t.pins[i][1] = p)]
PinMode(t) == [p \in {t.pins[i][1] : i \in 1..Len(t.pins)} |-> t.pins[CHOOSE i \in 1..Len(t.pins) : t.pins[i][1] = p][2]]
ButtonsOf(t) == {t.buttons[i] : i \in 1..Len(t.buttons)}
TInit == tid \in 1..Len(Traces) /\ l = 1 /\ BInit
TNext == /\ bad = "" /\ l <= Len(T.ev)
         /\ Consume(T.ev[l], PinMode(T), ButtonsOf(T))
         /\ l' = l + 1 /\ UNCHANGED tid
Done == bad # "" \/ l > Len(T.ev)
(* a re-laid-out script (comments, blank lines, trailing comments on headers) must behave exactly like its plain twin *)
TwinDiff == IF T.ev = T.twin THEN "" ELSE "re-layout-changes-behaviour"
Verdict == Done => PrintT(ToJson([id |-> T.id, ok |-> (bad = "" /\ TwinDiff = ""), l |-> l - 1,
                                  clause |-> (IF bad # "" THEN bad ELSE TwinDiff)]))
=============================================================================
