SPECIFICATION Spec
CONSTANTS
  Procs <- ProcsDef
  Scripts <- ScriptsDef
  Seeds <- SeedsDef
  Digests <- DigestsDef
  MaxOps = 2
  Guarded = TRUE
INVARIANT TypeOK
INVARIANT OneDigestPerScript
INVARIANT KnownIsWhatWasSeen
INVARIANT DeadHoldNothing
PROPERTY KnownStable
PROPERTY SeedFixedWhileAlive
CHECK_DEADLOCK FALSE
