INIT GInit
NEXT GNext
CONSTANTS
  Dirs = {}
  Sources = {}
  Ports = {}
  PairsG = {}
  LibLists = {}
  MaxLibs = 4
CONSTRAINT EmitLibs
CHECK_DEADLOCK FALSE
