----------------------------- MODULE HostSensors -----------------------------
(* The provider-driven host sensor classes: Button, Potentiometer, Ultrasonic.
   Button.is_pressed samples the provided signal once, returns 1/0 and fires on_click once per rising edge
   (the signal is released before the first sample); without a provider the level set by set_pressed is used.
   Potentiometer.read returns the provider's value, or raises if it is outside 0..1023 (0 without provider).
   Ultrasonic.measure_distance returns the provider's value (the default distance without provider), or raises
   if it is negative.
   Values are [t |-> "int"|"float"|"bool", m |-> value * U] with U = 8.                                     *)
EXTENDS Integers, Sequences, TLC

U == 8
CONSTANTS Cfgs,        \* [kind |-> "button"|"pot"|"ultra", prov |-> BOOLEAN, dflt |-> value]
          Levels, Adcs, Dists   \* sample grids
VARIABLES cfg, pressed, prev, clicks, sig, res, ret, dclicks, polls, last
vars == <<cfg, pressed, prev, clicks, sig, res, ret, dclicks, polls, last>>
\* pressed: level set by set_pressed; prev: level seen by the previous is_pressed; clicks: on_click calls so far;
\* sig: the levels sampled so far (history); dclicks / polls: on_click / provider calls made by the last call

Val(t, m) == [t |-> t, m |-> m]
NoVal == Val("int", 0)
Call(act, s) == [act |-> act, s |-> s]
NoCall == Call("none", NoVal)
Cf(k, p, d) == [kind |-> k, prov |-> p, dflt |-> d]
St(pr, pv) == [pressed |-> pr, prev |-> pv]
Cur == St(pressed, prev)
NONE == -1000000
Truth(v) == v.m # 0
Bit(b) == IF b THEN U ELSE 0           \* returned numbers are compared in units of 1/U as well

PotOut(v) == v < 0 \/ v > 1023 * U
Floor(v) == U * (v \div U)
Ceil(v) == U * ((v + U - 1) \div U)

(* Step relation: sensor configured as g, in state s, answers call c with result r, return value rt
   (units of 1/U), dc on_click calls and pl provider calls, and goes to state t. *)
Level(g, s, c) == IF g.prov THEN Truth(c.s) ELSE s.pressed
Post(g, s, c) ==
    CASE c.act = "set_pressed" -> St(Truth(c.s), s.prev)
      [] c.act = "is_pressed" -> St(s.pressed, Level(g, s, c))
      [] OTHER -> s
Sample(g, c) == IF g.prov THEN c.s.m ELSE IF g.kind = "ultra" THEN g.dflt.m ELSE 0
Raises(g, c) ==
    CASE c.act = "read" -> PotOut(Sample(g, c))
      [] c.act = "measure" -> Sample(g, c) < 0
      [] OTHER -> FALSE
RetOK(g, s, c, rt) ==
    CASE c.act = "set_pressed" -> rt = NONE
      [] c.act = "is_pressed" -> rt = Bit(Level(g, s, c))
      [] c.act = "read" -> rt \in {Floor(Sample(g, c)), Ceil(Sample(g, c))}   \* an integer reading is returned as it is
      [] c.act = "measure" -> rt = Sample(g, c)
      [] OTHER -> FALSE
ClicksOf(g, s, c) == IF c.act = "is_pressed" /\ Level(g, s, c) /\ ~s.prev THEN 1 ELSE 0
PollsOf(g, c) == IF g.prov /\ c.act # "set_pressed" THEN 1 ELSE 0
ActsOf(k) == CASE k = "button" -> {"is_pressed", "set_pressed"} [] k = "pot" -> {"read"} [] OTHER -> {"measure"}

Step(g, s, c, r, rt, dc, pl) ==
    /\ c.act \in ActsOf(g.kind)
    /\ r = (IF Raises(g, c) THEN "raise" ELSE "ok")
    /\ r = "ok" => RetOK(g, s, c, rt)
    /\ dc = ClicksOf(g, s, c) /\ pl = PollsOf(g, c)

StepDiff(g, s, c, r, rt, dc, pl) ==
    IF Step(g, s, c, r, rt, dc, pl) THEN ""
    ELSE IF c.act \notin ActsOf(g.kind) THEN "stimulus-wrong-call"
    ELSE IF r # "ok" /\ ~Raises(g, c) THEN "valid-sample-refused"
    ELSE IF r = "ok" /\ Raises(g, c) THEN (IF c.act = "read" THEN "pot-out-of-range-accepted" ELSE "negative-distance-accepted")
    ELSE IF pl # PollsOf(g, c) THEN "provider-not-sampled-exactly-once"
    ELSE IF r = "ok" /\ ~RetOK(g, s, c, rt) THEN
         (IF c.act = "is_pressed" THEN "is-pressed-return" ELSE IF c.act = "set_pressed" THEN "return-not-none"
          ELSE "not-the-providers-value")
    ELSE IF dc > ClicksOf(g, s, c) THEN (IF ClicksOf(g, s, c) = 0 THEN "click-without-rising-edge" ELSE "click-fired-more-than-once")
    ELSE "rising-edge-missed"

(* Known deviation (known/C20.json: pot-fraction-outside-range): Potentiometer.read truncates the provider's value
   to an int *before* the range check, so a non-integer value just outside the range (-1 < v < 0 or
   1023 < v < 1024) is returned as 0 / 1023 instead of being refused.  Matched exactly. *)
PotEdgeTrigger(g, c) ==
    LET v == Sample(g, c) IN c.act = "read" /\ v % U # 0 /\ ((-U < v /\ v < 0) \/ (1023 * U < v /\ v < 1024 * U))
KnownPotEdge(g, s, c, r, rt, dc, pl) ==
    /\ PotEdgeTrigger(g, c) /\ r = "ok" /\ rt = (IF Sample(g, c) < 0 THEN 0 ELSE 1023 * U)
    /\ dc = 0 /\ pl = PollsOf(g, c)

-----------------------------------------------------------------------------
SamplesOf(g) == CASE g.kind = "button" -> Levels [] g.kind = "pot" -> Adcs [] OTHER -> Dists
CallsOf(g) ==
    CASE g.kind = "button" ->
           {Call("is_pressed", v) : v \in (IF g.prov THEN Levels ELSE {NoVal})}
           \cup {Call("set_pressed", v) : v \in Levels}
      [] g.kind = "pot" -> {Call("read", v) : v \in (IF g.prov THEN Adcs ELSE {NoVal})}
      [] OTHER -> {Call("measure", v) : v \in (IF g.prov THEN Dists ELSE {NoVal})}
Init == /\ cfg \in Cfgs /\ pressed = FALSE /\ prev = FALSE /\ clicks = 0 /\ sig = <<>>
        /\ res = "init" /\ ret = NONE /\ dclicks = 0 /\ polls = 0 /\ last = NoCall
Do(c) == LET t == Post(cfg, Cur, c)
             r == IF Raises(cfg, c) THEN "raise" ELSE "ok"
         IN /\ last' = c /\ res' = r /\ UNCHANGED cfg
            /\ ret' = (IF r = "raise" THEN NONE
                       ELSE CASE c.act = "is_pressed" -> Bit(Level(cfg, Cur, c))
                              [] c.act = "read" -> Floor(Sample(cfg, c))
                              [] c.act = "measure" -> Sample(cfg, c)
                              [] OTHER -> NONE)
            /\ dclicks' = ClicksOf(cfg, Cur, c) /\ polls' = PollsOf(cfg, c)
            /\ clicks' = clicks + ClicksOf(cfg, Cur, c)
            /\ pressed' = t.pressed /\ prev' = t.prev
            /\ sig' = IF c.act = "is_pressed" THEN Append(sig, Level(cfg, Cur, c)) ELSE sig
Next == \E c \in CallsOf(cfg) : Do(c)
Spec == Init /\ [][Next]_vars
ShortSignal == Len(sig) <= 6           \* CONSTRAINT of the exhaustive check

-----------------------------------------------------------------------------
(* Properties named by C20. *)
RECURSIVE Edges(_, _)
Edges(s, i) == IF i > Len(s) THEN 0 ELSE (IF s[i] /\ (i = 1 \/ ~s[i - 1]) THEN 1 ELSE 0) + Edges(s, i + 1)
ClicksEqualRisingEdges == clicks = Edges(sig, 1)
AtMostOneClickPerCall == dclicks \in {0, 1}
ClickOnlyOnRisingEdge == [][dclicks' = 1 <=> (last'.act = "is_pressed" /\ ~prev /\ prev')]_vars
IsPressedReturnsLevel == last.act = "is_pressed" => ret = Bit(prev)
SetPressedIsSilent == [][last'.act = "set_pressed" => (clicks' = clicks /\ prev' = prev /\ polls' = 0)]_vars
CanonicalIsAllowed == [][Step(cfg, Cur, last', res', ret', dclicks', polls')]_vars
PotInRange == (cfg.kind = "pot" /\ res = "ok") => (0 <= ret /\ ret <= 1023 * U)
PotRefusesOutside == (cfg.kind = "pot" /\ last.act = "read") => ((res = "raise") <=> PotOut(Sample(cfg, last)))
PotIntegerIsFaithful == (cfg.kind = "pot" /\ res = "ok" /\ Sample(cfg, last) % U = 0) => ret = Sample(cfg, last)
DistanceNonNegative == (cfg.kind = "ultra" /\ res = "ok") => (ret >= 0 /\ ret = Sample(cfg, last))
DistanceRefusesNegative == (cfg.kind = "ultra" /\ last.act = "measure") => ((res = "raise") <=> Sample(cfg, last) < 0)
ProviderSampledOnce == polls = (IF cfg.prov /\ last.act \in {"is_pressed", "read", "measure"} THEN 1 ELSE 0)
=============================================================================
