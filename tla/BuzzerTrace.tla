----------------------------- MODULE BuzzerTrace -----------------------------
(* Batch trace validation for Buzzer: every recorded call of every firmware trace must be a step the Buzzer
   specification allows (Step), and the properties of C16 are evaluated on the implementation's own states
   (ImplInvDiff).  A call that leaves the specification exactly as a listed known finding describes is tagged
   (known) and followed; any other deviation is a rejection naming the first failing clause.  Verdicts are total. *)
EXTENDS Buzzer, Json, IOUtils

Traces == JsonDeserialize(IOEnv.TRACE_FILE)
    \* [{id, dflt, ev: [{act, a, m, sounding, cur, last, stray, wave: [{lv, us, n}...]}...]}...]   (first event: act = "init")
VARIABLES tid, l, bad, known
T == Traces[tid]

TInit == /\ tid \in 1..Len(Traces) /\ l = 1 /\ bad = "" /\ known = {}
         /\ dflt = Traces[tid].dflt /\ sounding = FALSE /\ cur = 0 /\ last = dflt /\ pin = 0 /\ elapsed = 0
         /\ todo = <<>> /\ call = NoCall /\ pre = St(FALSE, 0, dflt) /\ wave = WStart(0)

TNext == /\ bad = "" /\ l <= Len(T.ev)
         /\ LET e == T.ev[l]
                c == Call(e.act, e.a, e.m)
                t == St(e.sounding, e.cur, e.last)
                w == e.wave
                d0 == IF e.act = "init"
                      THEN (IF ~t.sounding /\ t.cur = 0 /\ Len(w) = 1 /\ w[1] = Seg(0, 0, 0) THEN "" ELSE "initial-state")
                      ELSE IF w[1].lv # pin THEN "projection-pin-continuity"
                      ELSE IF e.stray # 0 THEN "tone-on-foreign-pin-or-self-stopping-tone"
                      ELSE StepDiff(Cur, dflt, c, t, w)
                kn == IF d0 # "" /\ e.act # "init" /\ d0 # "projection-pin-continuity" THEN KnownTag(Cur, dflt, c, t, w) ELSE ""
                d == IF kn # "" THEN "" ELSE d0
            IN /\ sounding' = e.sounding /\ cur' = e.cur /\ last' = e.last /\ pin' = WLast(w)
               /\ wave' = w /\ call' = c /\ pre' = Cur /\ elapsed' = SafeTotal(w)
               /\ known' = IF kn # "" THEN known \cup {kn} ELSE known
               /\ bad' = IF d # "" THEN d ELSE IF kn # "" \/ e.act = "init" THEN "" ELSE ImplInvDiff(Cur, dflt, c, t, w)
         /\ l' = l + 1 /\ UNCHANGED <<tid, dflt, todo>>

Done == bad # "" \/ l > Len(T.ev)
Verdict == Done => PrintT(ToJson([id |-> T.id, ok |-> bad = "", l |-> l - 1, clause |-> bad, known |-> known]))
=============================================================================
