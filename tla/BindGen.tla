------------------------------- MODULE BindGen -------------------------------
(* Stimulus generation for Bind: TLC enumerates every call shape of every callable - ShapeMode "enum": the C08
   enumeration (Bind!SubsetFamily + Bind!IllegalFamily) over the signatures read from the host classes with
   inspect.signature and handed over as JSON; ShapeMode "all": every shape over the generic signatures of BindMC.
   Each initial state of the binding machine leaves TLC as one JSON line; nothing is explored here - the machine
   is run on every shape by BindTrace (and, exhaustively over small signatures, by BindMC). *)
EXTENDS BindMC, Json, IOUtils
SigsFile == JsonDeserialize(IOEnv.SIGS_FILE)
GInit == InitOver(SigsFile) /\ WellFormed(sig)     \* a signature `def` could not have produced yields no shapes
GInit2 == Init2
GInit3 == Init3
GNext == FALSE /\ UNCHANGED vars
Emit == PrintT(ToJson([c |-> c, np |-> shape[1], kw |-> shape[2]])) /\ FALSE
EmitSig == PrintT(ToJson([c |-> c, sig |-> sig.params, np |-> shape[1], kw |-> shape[2]])) /\ FALSE
=============================================================================
