INIT GInit
NEXT GNext
CONSTANTS
  Cfgs <- CfgsDef
  Levels <- LevelsQ
  Adcs <- AdcsQ
  Dists <- DistsQ
  MaxLen = 3
CONSTRAINT Emit
CHECK_DEADLOCK FALSE
