------------------------------ MODULE StrFamily ------------------------------
(* C06 string-literal family: every character class x every position a string literal can take in a script. *)
EXTENDS Integers, Sequences, TLC, Json
Positions == <<"serial-write", "fstring-fragment", "lcd-text", "variable", "concatenation", "list-item", "comparison", "function-argument">>
(* character codes: every printable ASCII character, the escapes, and a few non-ASCII code points *)
Codes == [n \in 1..95 |-> 31 + n] \o <<9, 10, 13, 92, 34, 39, 37, 233, 252, 8364, 28450, 128512>>
Specials == <<"trigraph-??/", "percent-d", "backslash-n-text", "quote-pair", "empty", "long-80", "leading-space", "brace-pair",
              "backslash-quote", "backslash-end", "quote-backslash", "double-backslash-quote">>
VARIABLES pos, code, done
Init == pos \in 1..Len(Positions) /\ code \in 1..(Len(Codes) + Len(Specials)) /\ done = FALSE
Next == done = FALSE /\ done' = TRUE /\ UNCHANGED <<pos, code>>
Emit == done => PrintT(ToJson([pos |-> Positions[pos], code |-> (IF code <= Len(Codes) THEN Codes[code] ELSE -1),
                               special |-> (IF code <= Len(Codes) THEN "" ELSE Specials[code - Len(Codes)])]))
=============================================================================
