INIT TInit
NEXT TNext
CONSTANTS
  N = 0
  MaxPasses = 0
CONSTRAINT Verdict
CHECK_DEADLOCK FALSE
