INIT GInit
NEXT GNext
CONSTANTS
  Speeds <- SpeedsDef
  Durations <- DurationsDef
  MaxLen = 2
CONSTRAINT Emit
CHECK_DEADLOCK FALSE
