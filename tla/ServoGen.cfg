INIT GInit
NEXT GNext
CONSTANTS
  Cals <- CalsDef
  Angles <- AnglesDef
  Pulses <- PulsesDef
  MaxLen = 2
CONSTRAINT Emit
CHECK_DEADLOCK FALSE
