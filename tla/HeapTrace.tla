------------------------------ MODULE HeapTrace ------------------------------
EXTENDS Heap, Json, IOUtils
Traces == JsonDeserialize(IOEnv.TRACE_FILE)      \* [{id, py: [live after setup, after pass 1, ...], ev: [...]}...]
VARIABLES tid, l
T == Traces[tid]
TInit == tid \in 1..Len(Traces) /\ l = 1 /\ HInit
TNext == /\ bad = "" /\ l <= Len(T.ev)
         /\ LET e == T.ev[l] IN
            IF ~BookkeepingAgrees(e) THEN bad' = "recorder-bookkeeping-mismatch" /\ UNCHANGED <<liveset, sizes, lastBytes, lastK>>
            ELSE HConsume(e, T.py)
         /\ l' = l + 1 /\ UNCHANGED tid
Done == bad # "" \/ l > Len(T.ev)
Verdict == Done => PrintT(ToJson([id |-> T.id, ok |-> bad = "", l |-> l - 1, clause |-> bad]))
=============================================================================
