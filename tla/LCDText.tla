------------------------------ MODULE LCDText ------------------------------
(* Character LCD (HD44780 class) as a state machine: a matrix of character cells, the backlight, the custom
   glyph slots, and the history of progress bars drawn.  One action per public method of the LCD API.

   Prescriptive: the reference is the property statement (C17) and the documented host class
   (Reduino.Displays.LCD).  For calls whose row and column exist on the display the placement of text is a
   function of the call (left / center / right inside the space that remains right of the start column,
   truncation at the right edge, optional clearing of the row first, no other row touched): host buffer and
   device cells both have to equal it, hence each other.  Latitude is written once, here:
     * progress: `filled` is any value of FillSet (floor or ceiling of value*width/max), monotone in value per
       (width, max) within one behaviour - this is the "differs by at most one cell, equal on exact multiples";
     * side = "host": a row outside the display / a brightness outside 0..255 / a bad glyph raises and leaves
       the object as it was;  side = "fw": the same calls are clamped / ignored, but nothing may be written
       outside the addressed row or beyond the width, and the backlight pin never sees a level outside 0..255;
     * a start column outside 0..cols-1 (row valid): only the addressed row may change.
   Text is a sequence of character codes (32 = blank, 255 = the full block of the progress bar).          *)
EXTENDS Integers, Sequences, FiniteSets, TLC

Min(a, b) == IF a < b THEN a ELSE b
Max(a, b) == IF a > b THEN a ELSE b
Clamp(v, lo, hi) == IF v < lo THEN lo ELSE IF v > hi THEN hi ELSE v
Take(s, k) == SubSeq(s, 1, Min(Len(s), k))

(* Geometry: [cols, rows, wiring \in {"parallel","i2c"}, blpin \in BOOLEAN (PWM backlight pin wired)] *)
Geom(c, r, w, p) == [cols |-> c, rows |-> r, wiring |-> w, blpin |-> p]
HasPin(g) == g.wiring = "i2c" \/ g.blpin            \* the backlight can be driven at all
HasPwm(g) == g.wiring = "parallel" /\ g.blpin       \* brightness() is available
Blank(g)  == [r \in 1..g.rows |-> [k \in 1..g.cols |-> 32]]
NoGlyphs  == [k \in 1..8 |-> <<>>]
RowOK(g, r) == 0 <= r /\ r < g.rows
ColOK(g, c) == 0 <= c /\ c < g.cols

(* Calls: one record shape for every method.  i: integers, t: texts (sequences of codes), s: strings, b: flags
     write      i = <<col, row>>   t = <<text>>          s = <<align>>              b = <<clear_row>>
     line       i = <<row>>        t = <<text>>          s = <<align>>              b = <<clear_row>>
     message    i = <<>>           t = <<top, bottom>>   s = <<top_al, bottom_al>>  b = <<clear_rows, top given, bottom given>>
     clear      -
     display    b = <<on>>         backlight  b = <<on>>          brightness  i = <<level>>
     glyph      i = <<slot>>       t = <<bitmap>>
     progress   i = <<row, value, max_value, width>>  t = <<label>>  s = <<style>>  b = <<width given>>          *)
Call(act, i, t, s, b) == [act |-> act, i |-> i, t |-> t, s |-> s, b |-> b]
NoCall == Call("none", <<>>, <<>>, <<>>, <<>>)
TextActs == {"write", "line", "message", "clear", "progress"}

RowOf(c) == CASE c.act = "write" -> c.i[2] [] c.act \in {"line", "progress"} -> c.i[1] [] OTHER -> 0
ColOf(c) == IF c.act = "write" THEN c.i[1] ELSE 0
(* the call addresses cells that exist *)
InRange(g, c) ==
    CASE c.act = "write" -> RowOK(g, c.i[2]) /\ ColOK(g, c.i[1])
      [] c.act \in {"line", "progress"} -> RowOK(g, c.i[1])
      [] OTHER -> TRUE
(* rows (1-based) the call may write to; a row that does not exist gives the empty set *)
TargetRows(g, c) ==
    CASE c.act \in {"write", "line", "progress"} -> IF RowOK(g, RowOf(c)) THEN {RowOf(c) + 1} ELSE {}
      [] c.act = "message" -> (IF c.b[2] THEN {1} ELSE {}) \cup (IF c.b[3] /\ g.rows > 1 THEN {2} ELSE {})
      [] c.act = "clear" -> 1..g.rows
      [] OTHER -> {}

-----------------------------------------------------------------------------
(* Text placement.  `line` is the row before the call, col the (existing) start column. *)
Offset(g, col, n, al) ==
    LET room == (g.cols - col) - n IN
    col + (CASE al = "left" -> 0 [] al = "center" -> room \div 2 [] OTHER -> room)
Place(g, line, col, txt, clr, al) ==
    LET n == Min(Len(txt), g.cols - col)
        o == Offset(g, col, n, al)
    IN [k \in 1..g.cols |-> IF k > o /\ k <= o + n THEN txt[k - o] ELSE IF clr THEN 32 ELSE line[k]]

ApplyText(g, cells, c) ==
    CASE c.act = "write" -> [cells EXCEPT ![c.i[2] + 1] = Place(g, @, c.i[1], c.t[1], c.b[1], c.s[1])]
      [] c.act = "line" -> [cells EXCEPT ![c.i[1] + 1] = Place(g, @, 0, c.t[1], c.b[1], c.s[1])]
      [] c.act = "message" ->
            LET c1 == IF c.b[2] THEN [cells EXCEPT ![1] = Place(g, @, 0, c.t[1], c.b[1], c.s[1])] ELSE cells
            IN IF c.b[3] /\ g.rows > 1 THEN [c1 EXCEPT ![2] = Place(g, @, 0, c.t[2], c.b[1], c.s[2])] ELSE c1
      [] c.act = "clear" -> Blank(g)
      [] OTHER -> cells

-----------------------------------------------------------------------------
(* Progress bar.  Width: the whole row when not given, otherwise clamped into 1..cols. *)
StyleCode(s) == CASE s = "block" -> 255 [] s = "hash" -> 35 [] s = "pipe" -> 124 [] OTHER -> 46
EffWidth(g, c) == IF ~c.b[1] THEN g.cols ELSE Clamp(c.i[4], 1, g.cols)
(* allowed filled lengths for value v of max m on a bar of w cells *)
FillSet(v, m, w) ==
    IF m <= 0 THEN {0}
    ELSE LET num == Clamp(v, 0, m) * w IN
         IF num % m = 0 THEN {num \div m} ELSE {num \div m, num \div m + 1}
ProgRow(g, c, w, f) ==
    LET bar  == [k \in 1..w |-> IF k <= f THEN StyleCode(c.s[1]) ELSE 32]
        full == IF Len(c.t[1]) > 0 THEN c.t[1] \o <<32>> \o bar ELSE bar
    IN [k \in 1..g.cols |-> IF k <= Len(full) THEN full[k] ELSE 32]
ApplyProgress(g, cells, c, f) == [cells EXCEPT ![c.i[1] + 1] = ProgRow(g, c, EffWidth(g, c), f)]
(* the filled cells of the bar are all visible, so `filled` can be read off the row *)
BarVisible(g, c) == (IF Len(c.t[1]) > 0 THEN Len(c.t[1]) + 1 ELSE 0) + EffWidth(g, c) <= g.cols
PgRec(g, c, f) == [w |-> EffWidth(g, c), m |-> c.i[3], v |-> c.i[2], f |-> f]
Monotone(P) == \A p \in P, q \in P : (p.w = q.w /\ p.m = q.m /\ p.v <= q.v) => p.f <= q.f
Saturating(P) == \A p \in P : /\ 0 <= p.f /\ p.f <= p.w
                              /\ (p.v <= 0 \/ p.m <= 0) => p.f = 0
                              /\ (p.m > 0 /\ p.v >= p.m) => p.f = p.w

(* What the pinned firmware template computes (used only to recognise the listed deviations exactly). *)
DevWidth(g, c) == IF ~c.b[1] \/ c.i[4] <= 0 \/ c.i[4] > g.cols THEN g.cols ELSE c.i[4]
DevFilled(g, c) == LET m == IF c.i[3] <= 0 THEN 1 ELSE c.i[3] IN (Clamp(c.i[2], 0, m) * DevWidth(g, c)) \div m

-----------------------------------------------------------------------------
(* Backlight / display power.  s = [dsp, bl, br, pin]; pin = -1 when no backlight line exists. *)
HostRaises(g, c) ==
    CASE c.act \in {"write", "line", "progress"} -> ~RowOK(g, RowOf(c))
      [] c.act = "brightness" -> ~HasPwm(g) \/ c.i[1] < 0 \/ c.i[1] > 255
      [] c.act = "glyph" -> c.i[1] < 0 \/ c.i[1] > 7 \/ Len(c.t[1]) < 8
      [] OTHER -> FALSE
Raises(sd, g, c) == sd = "host" /\ HostRaises(g, c)

LightPost(sd, g, s, c) ==
    IF Raises(sd, g, c) THEN s
    ELSE LET d  == IF c.act = "display" THEN c.b[1] ELSE s.dsp
             b  == IF c.act \in {"display", "backlight"} THEN c.b[1] ELSE s.bl
             r  == IF c.act = "brightness" /\ HasPwm(g) THEN Clamp(c.i[1], 0, 255) ELSE s.br
             p  == IF ~HasPin(g) THEN -1
                   ELSE IF c.act \in {"display", "backlight"} THEN (IF b THEN r ELSE 0)
                   ELSE IF c.act = "brightness" /\ s.bl THEN r
                   ELSE s.pin
         IN [dsp |-> d, bl |-> b, br |-> r, pin |-> p]
LightInit(g) == [dsp |-> TRUE, bl |-> TRUE, br |-> 255, pin |-> IF HasPin(g) THEN 255 ELSE -1]
LightLaw(g, s) == /\ 0 <= s.br /\ s.br <= 255
                  /\ HasPin(g) => s.pin = (IF s.bl THEN s.br ELSE 0)

(* Glyph slots: eight rows of five bits. *)
Mask5(bm) == [k \in 1..8 |-> bm[k] % 32]
GlyphPost(sd, g, gl, c) ==
    IF c.act # "glyph" \/ HostRaises(g, c) THEN gl ELSE [gl EXCEPT ![c.i[1] + 1] = Mask5(c.t[1])]
FiveBit(bm) == Len(bm) = 8 /\ \A k \in 1..8 : 0 <= bm[k] /\ bm[k] <= 31
GlyphLaw(gl) == \A k \in 1..8 : gl[k] = <<>> \/ FiveBit(gl[k])

-----------------------------------------------------------------------------
(* Observation of one call on an implementation:
     o = [res, cell, dsp, bl, br, pin, aws, gl, gup, off, clamped, stray]
   cell: matrix after the call; off: characters sent to a position outside the visible window; clamped:
   characters sent after a cursor command whose row the controller had to clamp (they land in another row);
   stray: events on another display's lines; aws: every level written to the backlight pin during the call;
   gup: glyph uploads [slot, bm] during the call.  Host: dsp/bl/br/gl are the public attributes, pin is not
   observable (-1).  Firmware: pin is observed, bl/br are not (the specification carries them).           *)
ShapeOK(g, m) == Len(m) = g.rows /\ \A r \in 1..g.rows : Len(m[r]) = g.cols
OtherRowsSame(g, a, b, rows) == \A r \in 1..g.rows : r \in rows \/ a[r] = b[r]

CellDiff(sd, g, sc, c, o) ==
    IF ~ShapeOK(g, o.cell) THEN "beyond-width-or-missing-row"
    ELSE IF o.off # 0 THEN "written-beyond-width"
    ELSE IF o.clamped # 0 THEN "written-off-row"
    ELSE IF c.act \notin TextActs THEN (IF o.cell # sc THEN "cells-changed-by-non-text-call" ELSE "")
    ELSE IF Raises(sd, g, c) THEN (IF o.cell # sc THEN "failed-call-changed-cells" ELSE "")
    ELSE IF ~OtherRowsSame(g, sc, o.cell, TargetRows(g, c)) THEN "other-row-touched"
    ELSE IF ~InRange(g, c) THEN ""            \* latitude: only the addressed row (if it exists) may differ
    ELSE IF c.act = "progress" THEN
         (IF \E f \in FillSet(c.i[2], c.i[3], EffWidth(g, c)) : o.cell = ApplyProgress(g, sc, c, f) THEN "" ELSE "progress-row")
    ELSE IF o.cell = ApplyText(g, sc, c) THEN "" ELSE "cells"

(* progress history after the call: a record is added when `filled` is readable from the row *)
PgPost(sd, g, P, sc, c, o) ==
    IF c.act # "progress" \/ Raises(sd, g, c) \/ ~InRange(g, c) \/ ~BarVisible(g, c) \/ ~ShapeOK(g, o.cell) THEN P
    ELSE LET F == {f \in FillSet(c.i[2], c.i[3], EffWidth(g, c)) : o.cell = ApplyProgress(g, sc, c, f)}
         IN IF Cardinality(F) = 1 THEN P \cup {PgRec(g, c, CHOOSE f \in F : TRUE)} ELSE P

LightDiff(sd, g, s, c, o) ==
    LET t == LightPost(sd, g, s, c) IN
    IF \E k \in 1..Len(o.aws) : o.aws[k] < 0 \/ o.aws[k] > 255 THEN "backlight-level-outside-0-255"
    ELSE IF o.dsp # t.dsp THEN "display-flag"
    ELSE IF sd = "host" /\ (o.bl # t.bl \/ o.br # t.br) THEN "backlight-state"
    ELSE IF sd = "fw" /\ o.pin # t.pin THEN "backlight-pin"
    ELSE ""

GlyphDiff(sd, g, gl, c, o) ==
    IF \E k \in 1..Len(o.gup) : ~FiveBit(o.gup[k].bm) THEN "glyph-rows-not-5bit"
    ELSE IF c.act # "glyph" THEN (IF Len(o.gup) # 0 \/ o.gl # gl THEN "glyph-changed-by-other-call" ELSE "")
    ELSE IF sd = "host" THEN (IF o.gl # GlyphPost(sd, g, gl, c) THEN "glyph-store" ELSE "")
    ELSE IF HostRaises(g, c) THEN ""          \* device, slot outside 0..7: whatever is uploaded has 5-bit rows
    ELSE IF Len(o.gup) # 1 \/ o.gup[1].slot # c.i[1] \/ o.gup[1].bm # Mask5(c.t[1]) THEN "glyph-upload"
    ELSE IF o.gl # GlyphPost(sd, g, gl, c) THEN "glyph-store"
    ELSE ""

(* s = [cell, light, gl, pg]: the specification's state before the call *)
StepDiff(sd, g, s, c, o) ==
    IF o.res # (IF Raises(sd, g, c) THEN "raise" ELSE "ok") THEN (IF o.res = "ok" THEN "invalid-call-accepted" ELSE "result")
    ELSE IF o.stray # 0 THEN "other-display-touched"
    ELSE LET d1 == CellDiff(sd, g, s.cell, c, o) IN
         IF d1 # "" THEN d1
         ELSE LET d2 == LightDiff(sd, g, s.light, c, o) IN
              IF d2 # "" THEN d2
              ELSE LET d3 == GlyphDiff(sd, g, s.gl, c, o) IN
                   IF d3 # "" THEN d3
                   ELSE IF ~Monotone(PgPost(sd, g, s.pg, s.cell, c, o)) THEN "progress-not-monotone"
                   ELSE ""
Step(sd, g, s, c, o) == StepDiff(sd, g, s, c, o) = ""
StatePost(sd, g, s, c, o) ==
    [cell |-> o.cell, light |-> LightPost(sd, g, s.light, c), gl |-> IF sd = "host" THEN o.gl ELSE GlyphPost(sd, g, s.gl, c),
     pg |-> PgPost(sd, g, s.pg, s.cell, c, o)]

-----------------------------------------------------------------------------
(* Listed deviations of the pinned firmware, each matched exactly (known/C17.json).  A deviation that is not
   one of these is still reported.  All of them: side = "fw", result ok, nothing beyond the width. *)
DevBase(g, c, o) == o.res = "ok" /\ o.stray = 0 /\ o.off = 0 /\ ShapeOK(g, o.cell)
(* message(bottom = ...) on a one-row display: the bottom line is sent to row 1, which the controller clamps to
   row 0 - the bottom text replaces the top text *)
KnownMessageOneRow(g, s, c, o) ==
    /\ c.act = "message" /\ c.b[3] /\ g.rows = 1
    /\ DevBase(g, c, o) /\ o.clamped > 0
    /\ LET top == IF c.b[2] THEN Place(g, s.cell[1], 0, c.t[1], c.b[1], c.s[1]) ELSE s.cell[1]
       IN o.cell = <<Place(g, top, 0, c.t[2], c.b[1], c.s[2])>>
(* write/line/progress addressed to a row that does not exist: drawn into an existing row instead *)
KnownRowRedirect(g, s, c, o) ==
    /\ c.act \in {"write", "line", "progress"} /\ ~RowOK(g, RowOf(c)) /\ ColOf(c) < g.cols
    /\ DevBase(g, c, o) /\ o.clamped > 0
    /\ \E r \in 0..g.rows - 1 :
         LET cc == IF c.act = "write" THEN [c EXCEPT !.i = <<Max(0, c.i[1]), r>>] ELSE [c EXCEPT !.i[1] = r]
         IN IF c.act = "progress" THEN \E f \in FillSet(c.i[2], c.i[3], EffWidth(g, c)) :
                                          o.cell = [s.cell EXCEPT ![r + 1] = ProgRow(g, c, EffWidth(g, c), f)]
            ELSE o.cell = ApplyText(g, s.cell, cc)
(* progress with max_value <= 0 (host: empty bar) or width <= 0 (host: one cell): device takes max = 1 / the full row *)
KnownProgressDegenerate(g, s, c, o) ==
    /\ c.act = "progress" /\ RowOK(g, c.i[1]) /\ (c.i[3] <= 0 \/ (c.b[1] /\ c.i[4] <= 0))
    /\ DevBase(g, c, o) /\ o.clamped = 0
    /\ o.cell = [s.cell EXCEPT ![c.i[1] + 1] = ProgRow(g, c, DevWidth(g, c), DevFilled(g, c))]
KnownOf(sd, g, s, c, o) ==
    IF sd # "fw" THEN {}
    ELSE (IF KnownMessageOneRow(g, s, c, o) THEN {"lcd-message-bottom-on-one-row"} ELSE {})
         \cup (IF KnownRowRedirect(g, s, c, o) THEN {"lcd-row-out-of-range-redirected"} ELSE {})
         \cup (IF KnownProgressDegenerate(g, s, c, o) /\ c.i[3] <= 0 THEN {"lcd-progress-nonpositive-max"} ELSE {})
         \cup (IF KnownProgressDegenerate(g, s, c, o) /\ c.i[3] > 0 THEN {"lcd-progress-nonpositive-width"} ELSE {})

-----------------------------------------------------------------------------
(* The machine used for model checking and behaviour generation.  `bad` collects the names of the laws a
   transition broke (evaluated on every transition with the call that caused it), so each law is a named
   state invariant without the call having to be part of the state. *)
VARIABLES side, g, cell, light, gl, pg, res, bad, n
vars == <<side, g, cell, light, gl, pg, res, bad, n>>
Cur == [cell |-> cell, light |-> light, gl |-> gl, pg |-> pg]

InitFor(sd, geo) == /\ side = sd /\ g = geo /\ cell = Blank(geo) /\ light = LightInit(geo) /\ gl = NoGlyphs
                    /\ pg = {} /\ res = "init" /\ bad = {} /\ n = 0

(* the laws of C17 as predicates over one transition (before, call, after) *)
ChangedRows(geo, a, b) == {r \in 1..geo.rows : a[r] # b[r]}
NonBlank(row) == {k \in 1..Len(row) : row[k] # 32}
AlignOK(geo, c, row) ==   \* independent characterisation of placement (text without blanks, row cleared first)
    LET col == ColOf(c)   txt == c.t[1]   n0 == Min(Len(txt), geo.cols - col)   nb == NonBlank(row) IN
    IF n0 = 0 THEN nb = {}
    ELSE /\ Cardinality(nb) = n0
         /\ LET o == (CHOOSE k \in nb : \A j \in nb : k <= j) - 1 IN
            /\ \A k \in 1..n0 : row[o + k] = txt[k]                      \* a contiguous prefix of the text: truncation at the right edge
            /\ o >= col /\ o + n0 <= geo.cols
            /\ CASE c.s[1] = "left" -> o = col
                 [] c.s[1] = "right" -> o + n0 = geo.cols
                 [] OTHER -> LET lp == o - col   rp == geo.cols - (o + n0) IN rp - lp \in {0, 1}
LawsBroken(sd, geo, a, c, b, r) ==
    (IF ~ShapeOK(geo, b) THEN {"NeverBeyondWidth"} ELSE {})
    \cup (IF ShapeOK(geo, b) /\ ~(ChangedRows(geo, a, b) \subseteq TargetRows(geo, c)) THEN {"NeverOffRow", "OtherRowsUntouched"} ELSE {})
    \cup (IF r = "raise" /\ a # b THEN {"NeverOffRow"} ELSE {})
    \cup (IF ShapeOK(geo, b) /\ r = "ok" /\ c.act \in {"write", "line"} /\ InRange(geo, c) /\ c.b[1]
             /\ (\A k \in 1..Len(c.t[1]) : c.t[1][k] # 32) /\ ~AlignOK(geo, c, b[RowOf(c) + 1]) THEN {"AlignmentLaw"} ELSE {})

Do(c, f) ==
    /\ UNCHANGED <<side, g>>                 \* the caller advances the call counter n
    /\ res' = IF Raises(side, g, c) THEN "raise" ELSE "ok"
    /\ light' = LightPost(side, g, light, c)
    /\ gl' = GlyphPost(side, g, gl, c)
    /\ LET nc == IF Raises(side, g, c) \/ ~InRange(g, c) THEN cell      \* canonical: an unaddressable call changes nothing
                 ELSE IF c.act = "progress" THEN ApplyProgress(g, cell, c, f)
                 ELSE ApplyText(g, cell, c)
       IN /\ cell' = nc
          /\ pg' = IF c.act = "progress" /\ ~Raises(side, g, c) /\ InRange(g, c) /\ BarVisible(g, c) THEN pg \cup {PgRec(g, c, f)} ELSE pg
          /\ bad' = bad \cup LawsBroken(side, g, cell, c, nc, res')
                        \cup (IF Step(side, g, Cur, c, [res |-> res', cell |-> nc, dsp |-> light'.dsp, bl |-> light'.bl, br |-> light'.br,
                                                        pin |-> light'.pin, aws |-> <<>>, gl |-> gl', gup |-> IF side = "fw" /\ c.act = "glyph" /\ ~HostRaises(g, c) THEN <<[slot |-> c.i[1], bm |-> Mask5(c.t[1])]>> ELSE <<>>,
                                                        off |-> 0, clamped |-> 0, stray |-> 0])
                              THEN {} ELSE {"CanonicalIsAllowed"})
(* progress: any allowed `filled` that keeps the bar monotone *)
PgFree(c) == ~BarVisible(g, c) \/ Raises(side, g, c) \/ ~InRange(g, c)      \* the call adds nothing to the progress history
DoAny(c) == IF c.act = "progress"
            THEN \E f \in FillSet(c.i[2], c.i[3], EffWidth(g, c)) :
                    (IF PgFree(c) THEN TRUE ELSE Monotone(pg \cup {PgRec(g, c, f)})) /\ Do(c, f)
            ELSE Do(c, 0)

(* the properties, by name *)
NeverOffRow        == "NeverOffRow" \notin bad
NeverBeyondWidth   == "NeverBeyondWidth" \notin bad /\ ShapeOK(g, cell)
OtherRowsUntouched == "OtherRowsUntouched" \notin bad
AlignmentLaw       == "AlignmentLaw" \notin bad
CanonicalIsAllowed == "CanonicalIsAllowed" \notin bad
ProgressMonotoneSaturating == Monotone(pg) /\ Saturating(pg)
BacklightLaw       == LightLaw(g, light)
GlyphRows5bit      == GlyphLaw(gl)
FailedCallLeavesState == [][res' = "raise" => (cell' = cell /\ light' = light /\ gl' = gl /\ pg' = pg)]_vars
(* the latitude of progress is what the property says: at most two adjacent values, one on exact multiples *)
FillSetLaw(Vs, Ms, Ws) ==
    \A v \in Vs, m \in Ms, w \in Ws :
        LET F == FillSet(v, m, w) IN
        /\ F # {} /\ \A a \in F, b \in F : a - b \in {-1, 0, 1}
        /\ \A a \in F : 0 <= a /\ a <= w
        /\ (m > 0 /\ (Clamp(v, 0, m) * w) % m = 0) => Cardinality(F) = 1
        /\ (m > 0 /\ v >= m) => F = {w}
        /\ (v <= 0 \/ m <= 0) => F = {0}
=============================================================================
