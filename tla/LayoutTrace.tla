----------------------------- MODULE LayoutTrace -----------------------------
(* Batch verdicts for C07, decided by the Layout specification.

   what = "layout": the record names a re-layout (skeleton index + deviation set).  TLC renders it, feeds its
     physical lines one by one to the Layout machine (every invariant of Layout is evaluated on every state) and,
     whenever the machine places a numbered statement, compares the block path with the place(s) where the real
     transpiler's IR holds that statement (obs).  After the last line: the transpiler must not have rejected the
     layout and the emitted text must equal that of the canonical layout (same).
   what = "stmt": one catalogue statement in one context with the outcome observed on the real transpiler
     (translated | rejected | skipped); decided by AccountDiff / Ignorable.

   Known findings are matched exactly: a deviation is accepted (and reported as known) only if the layout carries
   exactly one instance of a known trigger and the deviation has the shape that trigger is listed with
   (KnownShape); any other deviation of the same layout is a violation with PathDiff's clause.             *)
EXTENDS Layout, Json, IOUtils

Recs  == JsonDeserialize(IOEnv.TRACE_FILE)
Skels == JsonDeserialize(IOEnv.SKEL_FILE)
VARIABLES tid, l, bad, known, cx
tvars == <<vars, tid, l, bad, known, cx>>
\* cx: everything that depends only on the record (rendered lines, the machine's full assignment, the known-trigger
\* instance and what it affects) - computed once per record in TInit

T == Recs[tid]
IsLayout == T.what = "layout"
SKT == Skels[T.sk].lines
Mains == {SKT[i].id : i \in {j \in 1..Len(SKT) : SKT[j].hk = "main"}}
Defs  == {SKT[i].id : i \in {j \in 1..Len(SKT) : SKT[j].hk = "def"}}
ObsOf(id) == LET hits == {k \in 1..Len(T.obs) : T.obs[k].id = id} IN
             IF hits = {} THEN <<>> ELSE T.obs[CHOOSE k \in hits : TRUE].at
LocatableKinds == {"mark", "bright", "sleep", "blink", "aug", "local", "call", "ret", "fwdret", "retf", "if", "elif", "for", "while", "def"}
Locatable(i) == SKT[i].kind \in LocatableKinds

-----------------------------------------------------------------------------
(* Known findings of the layout half: trigger instance -> (steps that vanish, lines affected, lines that may vanish) *)
KnownLayoutTags == {"comment-cuts-block", "tab-comment-cuts-block", "top-header-trailing-comment",
                    "clause-header-trailing-comment", "space-before-call-paren", "space-around-dot"}
CommentTags == {"comment-cuts-block", "tab-comment-cuts-block"}
NoTag == <<"", 0>>
CxOf(t) ==
    IF t.what # "layout" THEN [lines |-> <<>>, paths |-> <<>>, kt |-> NoTag, nk |-> 0, cutHs |-> {}, cutOps |-> {}]
    ELSE LET sk == Skels[t.sk].lines
             dv == Range(t.devs)
             lines == Render(sk, dv)
             asg == Run(lines).assign
             paths == [i \in 1..Len(asg) |-> asg[i].path]          \* logical lines are placed in order: paths[i] is line i
             kts == {x \in TagsOf(sk, dv) : x[1] \in KnownLayoutTags}
             kt == IF Cardinality(kts) = 1 THEN CHOOSE x \in kts : TRUE ELSE NoTag
             cutHs == CASE kt[1] = "comment-cuts-block" -> CutHeaders(sk, dv, kt[2], 8)
                        [] kt[1] = "tab-comment-cuts-block" -> CutHeaders(sk, dv, kt[2], 4)
                        [] kt = NoTag -> {}
                        [] OTHER -> IF IsHeader(sk, kt[2]) THEN {kt[2]} ELSE {}
         IN [lines |-> lines, paths |-> paths, kt |-> kt, nk |-> Cardinality(kts), cutHs |-> cutHs,
             cutOps |-> {paths[h + 1][sk[h].d + 1].o : h \in cutHs}]
Lines == cx.lines
SpecPath(i) == cx.paths[i]
OneKnown == cx.nk = 1
KT == cx.kt
CutHs == cx.cutHs
CutOps == cx.cutOps
PushedOpener(h) == SpecPath(h + 1)[SKT[h].d + 1].o          \* the compound statement header h belongs to (line h+1 is in its suite)
InCompound(j, h) ==                                        \* line j lies in a suite of h's compound statement, or is one of its clause headers
    LET pos == SKT[h].d + 1  op == PushedOpener(h) IN
    \/ Len(SpecPath(j)) >= pos /\ SpecPath(j)[pos].o = op
    \/ SKT[j].hk \in Clauses /\ SKT[j].d = SKT[h].d /\ j < Len(SKT) /\ SpecPath(j) = SpecPath(h) /\ PushedOpener(j) = op
After == IF KT[1] \in CommentTags THEN KT[2] ELSE KT[2] - 1     \* affected lines come after this index
Affected(j) == /\ j > After
               /\ \/ j = KT[2] /\ KT[1] \notin CommentTags
                  \/ \E h \in CutHs : j > h /\ InCompound(j, h)
MayVanish(j) == SKT[j].hk \in Clauses \cup {"def"} \/ (j = KT[2] /\ KT[1] \notin CommentTags)

RECURSIVE IsSubseqFrom(_, _, _, _)
IsSubseqFrom(a, b, i, j) == IF i > Len(a) THEN TRUE ELSE IF j > Len(b) THEN FALSE
                            ELSE IF a[i] = b[j] THEN IsSubseqFrom(a, b, i + 1, j + 1) ELSE IsSubseqFrom(a, b, i, j + 1)
IsSubseq(a, b) == IsSubseqFrom(a, b, 1, 1)
Kept(s) == SelectSeq(s, LAMBDA st : st.o \notin CutOps)
(* the statement is found where its block path leads once the cut compound statements are gone; when the cut
   reaches the top level, enclosing loops further down may be flattened as well *)
Lifted(o, s) == IF s # <<>> /\ s[1].o \in CutOps THEN IsSubseq(o, Kept(s)) ELSE o = Kept(s)
KnownShape(j, obs) ==
    /\ OneKnown /\ Affected(j)
    /\ \/ obs = <<>> /\ MayVanish(j)
       \/ Len(obs) = 1 /\ Lifted(obs[1], SpecPath(j))
KnownReject ==      \* the cut lifts a `return` out of its `def`: it is then met outside a function and rejected as such
    /\ OneKnown /\ T.exc = "ValueError"
    /\ \E h \in CutHs : /\ SKT[h].hk = "def"
                         /\ \E j \in 1..Len(SKT) : SKT[j].kind = "ret" /\ Affected(j) /\ j > h /\ InCompound(j, h)

-----------------------------------------------------------------------------
(* Known findings of the accounting half: statement kinds that vanish without a diagnostic *)
KnownDrop(kind) ==
    CASE kind = "continue" -> "continue-dropped"
      [] kind \in {"chained-assign", "annotated-assign", "subscript-assign", "attribute-assign", "aug-subscript",
                   "augassign-matmul", "starred-assign", "tuple-from-call", "walrus"} -> "assignment-form-dropped"
      [] kind = "unknown-device-method" -> "unknown-device-method-dropped"
      [] kind \in {"for-in-list", "with", "for-else", "while-else", "try-finally", "try-except-else", "match",
                   "async-def", "class-def", "nested-def", "decorator"} -> "compound-header-dropped"
      [] kind \in {"if-inline-suite", "while-inline-suite", "for-inline-suite"} -> "inline-suite-dropped"
      [] kind \in {"del-name", "del-subscript", "assert", "raise", "raise-bare", "yield", "lambda-call"} -> "simple-statement-dropped"
      [] OTHER -> ""

-----------------------------------------------------------------------------
TInit == /\ tid \in 1..Len(Recs) /\ l = 1 /\ bad = "" /\ known = {} /\ MInit /\ cx = CxOf(Recs[tid])

NLines == Len(Lines)
(* one step per physical line of the layout, then one closing step *)
LayoutStep ==
    /\ IsLayout /\ l <= NLines + 1
    /\ IF T.exc # "" THEN      \* rejected: nothing was observed
          /\ UNCHANGED vars /\ l' = NLines + 2
          /\ IF KnownReject THEN bad' = "" /\ known' = known \cup {KT[1]}
             ELSE bad' = "layout-rejected" /\ UNCHANGED known
       ELSE IF l <= NLines THEN
          LET ln == Lines[l]
              nxt == Feed(Cur, ln)
              j == ln.ln
              obs == ObsOf(ln.id)
              \* the path the machine assigns to this statement (after indentation handling, before a header pushes)
              sp == IF ln.t = "stmt" /\ nxt.err = "" THEN nxt.assign[Len(nxt.assign)].path ELSE <<>>
              d1 == IF nxt.err # "" THEN "spec-rejects-layout"
                    ELSE IF ln.t # "stmt" \/ ~Locatable(j) THEN ""
                    ELSE PathDiff(sp, obs, Mains, Defs)
              kn == d1 # "" /\ d1 # "spec-rejects-layout" /\ KnownShape(j, obs)
          IN /\ Becomes(nxt) /\ l' = l + 1
             /\ bad' = IF kn THEN "" ELSE d1
             /\ known' = IF kn THEN known \cup {KT[1]} ELSE known
       ELSE /\ UNCHANGED vars /\ l' = l + 1 /\ UNCHANGED known
            /\ bad' = IF Cur.pend THEN "spec-rejects-layout"
                      ELSE IF ~T.same /\ known = {} THEN "output-changed" ELSE ""
    /\ UNCHANGED <<tid, cx>>

StmtStep ==
    /\ ~IsLayout /\ l = 1 /\ l' = 2 /\ UNCHANGED <<vars, tid, cx>>
    /\ LET d0 == IF T.pyok THEN AccountDiff(T.kind, T.outcome) ELSE ""
           kn == d0 = "silently-dropped" /\ KnownDrop(T.kind) # ""
       IN /\ bad' = IF kn THEN "" ELSE d0
          /\ known' = IF kn THEN {KnownDrop(T.kind)} ELSE {}

TNext == bad = "" /\ (LayoutStep \/ StmtStep)
Done == bad # "" \/ (IsLayout /\ l > NLines + 1) \/ (~IsLayout /\ l > 1)
Verdict == Done => PrintT(ToJson([id |-> T.id, ok |-> bad = "", l |-> l - 1, clause |-> bad, known |-> known]))
=============================================================================
