----------------------------- MODULE RegistryGen -----------------------------
(* Case generation: for every candidate platform name one JSON line with the positions (in Input.boards) of the
   candidate boards the specification accepts under it; all other candidates must be rejected with ValueError. *)
EXTENDS RegistryMC
GInit == pi \in 1..Len(Input.plats) /\ bi = 1 /\ out = "none"
EmitRow == PrintT(ToJson([pi |-> pi, accept |-> {j \in 1..Len(Input.boards) : Accept(plat, Input.boards[j])},
                          n |-> Len(Input.boards)])) /\ FALSE
=============================================================================
