------------------------------- MODULE LibsGen -------------------------------
(* Stimulus generation for C14: TLC enumerates device multisets exhaustively and runs each through the
   specification's own Declare/Finish actions; every finished behaviour leaves TLC as one JSON line
   {decls, shape, alt, need, libs, incl, inst} (the last four are the specification's expectation, for the
   evidence/replay files only - the comparison with the real code is done by LibsTrace).

   Clean stratum (the property's quantifier):  servos 0..2 split over the two placements (before the main
   loop / top of the `while True:` body), parallel LCDs 0..2, I2C LCDs 0..2, a subset of the eight other
   device kinds, and a script shape:
       "loop" - every device used once in the loop body,
       "fn"   - every device used inside a helper function called from the loop,
       "flat" - no main loop at all (README style; only without loop-placed servos).
   Probe stratum (known finding lib-device-in-compound-statement): one library device declared inside an
   if / for / while / try block before the main loop, alone or next to top-level devices of the other kinds. *)
EXTENDS Libs, Json
CONSTANTS Plans, Shapes, Alts
VARIABLES plan, shape, alt
gvars == <<vars, plan, shape, alt>>

Rep(x, n) == [i \in 1..n |-> x]
OtherOrder == <<"led", "rgb", "motor", "buzzer", "button", "pot", "ultra", "serial">>
OtherSeq(os) == LET ks == SelectSeq(OtherOrder, LAMBDA k : k \in os) IN [i \in DOMAIN ks |-> Dev(ks[i], "pre")]
PlanOf(os, ns, np, ni, nl) ==
    OtherSeq(os) \o Rep(Dev("servo", "pre"), ns) \o Rep(Dev("lcdp", "pre"), np) \o Rep(Dev("lcdi", "pre"), ni)
                 \o Rep(Dev("servo", "loop"), nl)
ServoSplits == {<<a, b>> \in (0..2) \X (0..2) : a + b <= 2}
PlansOver(OtherSets) == {PlanOf(os, sp[1], np, ni, sp[2]) : os \in OtherSets, sp \in ServoSplits, np \in 0..2, ni \in 0..2}

OtherSetsQ    == {{}} \cup {{k} : k \in OtherKinds} \cup {OtherKinds}        \* 10 subsets: none, each alone, all
OtherSetsFull == SUBSET OtherKinds                                            \* 256 subsets
PlansQ    == PlansOver(OtherSetsQ)
PlansFull == PlansOver(OtherSetsFull)
ShapesClean == {"loop", "fn", "flat"}

\* probes: the nested device alone, or after top-level devices of the two other library kinds and a Led
ProbeContext(k) == LET ks == SelectSeq(<<"servo", "lcdp", "lcdi">>, LAMBDA x : x # k) IN
                     <<Dev("led", "pre")>> \o [i \in DOMAIN ks |-> Dev(ks[i], "pre")]
PlansProbe  == {<<Dev(k, "nested")>> : k \in LibKinds} \cup {ProbeContext(k) \o <<Dev(k, "nested")>> : k \in LibKinds}
ShapesProbe == {"nest-if", "nest-for", "nest-while", "nest-try"}

PlansQP     == PlansQ \cup PlansProbe          \* quick grid + probes in one run
PlansFullP  == PlansFull \cup PlansProbe
ShapesAll   == ShapesClean \cup ShapesProbe

HasPlace(p, pl) == \E i \in DOMAIN p : p[i].place = pl
ShapeOK(p, s) == /\ (s = "flat") => ~HasPlace(p, "loop")
                 /\ (s \in ShapesProbe) <=> HasPlace(p, "nested")
\* the second spelling/order variant (alt = 1) is rendered for the shapes "loop" and nest-* only
\* alt = 2: every device declared before the loop is bound to one and the same identifier (shapes "loop" and "flat")
AltOK(s, a) == /\ (a = 1) => (s = "loop" \/ s \in ShapesProbe)
               /\ (a = 2) => (s \in {"loop", "flat"})

GInit == Init /\ plan \in Plans /\ shape \in Shapes /\ alt \in Alts /\ ShapeOK(plan, shape) /\ AltOK(shape, alt)
GNext == /\ \/ Len(devs) < Len(plan) /\ Declare(plan[Len(devs) + 1].kind, plan[Len(devs) + 1].place)
            \/ Len(devs) = Len(plan) /\ Finish
         /\ UNCHANGED <<plan, shape, alt>>
SetSeq(S) == SelectSeq(<<"Servo", "LiquidCrystal", "LiquidCrystal_I2C">>, LAMBDA x : x \in S)
Emit == done => PrintT(ToJson([decls |-> devs, shape |-> shape, alt |-> alt, need |-> SetSeq(Needed(devs)),
                               libs |-> libs, incl |-> incl, inst |-> inst]))
=============================================================================
