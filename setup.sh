#!/bin/sh
# Offline setup: compile the mock Arduino runtime (plain + sanitizer variants) and parse every TLA+ module.
set -e
HERE="$(cd "$(dirname "$0")" && pwd)"
cd "$HERE"
mkdir -p build evidence
/venv/bin/python -B - <<'PY'
import sys
sys.path.insert(0, '.')
from harness import fw, tlc
from harness.common import TLA
print('runtime', fw.ensure_runtime(False))
print('runtime', fw.ensure_runtime(True))
bad = 0
for f in sorted(TLA.glob('*.tla')):
    try:
        tlc.sany(f.stem)
    except Exception as e:
        bad += 1
        print('SANY FAIL', f.name, str(e)[:500])
print('sany ok' if not bad else f'sany failures: {bad} (reported, the checks that use those modules will exit 2)')
sys.exit(0)
PY
