"""C02 - type inference is sound: no value is narrowed or re-typed on the device.

Decided by: the Lang specification with its history variable `ty` (every runtime type a name, parameter or
function result held).  TLC enumerates TypeFlows (tla/LangFamilies.tla, family "tflow": type sequences x 13 kinds
of site) and the ExprCases with the result routed through a variable; each program is executed as firmware and
under CPython and judged by TLC (LangTrace): printed values must agree AND the declared C++ type of every
variable / parameter / return (scanned from the emitted text) must cover the join of ty[name] (`Covers`).
Flows in which a name changes type hit the known finding (first-assignment-wins typing) and are probed separately."""
from __future__ import annotations

import json
import random

from harness import lang, langcheck, langgen, langprobes
from harness.langcheck import Strata, judge, run_packed

LEVEL = "model_checking"


# The type a name gets from a device query: a fractional result must still be fractional after it went through a variable, a
# helper's result or arithmetic (each line prints 1 exactly when the fraction survived; the reference is CPython on the host classes).
RAW_TYPE_SCRIPTS = {
    "rawt-servo-queries-through-names": "from Reduino.Actuators import Servo\narm = Servo(9)\narm.write(45.5)\nus = arm.read_us()\nmon.write(1 if us > 1013.1 else 0)\n"
                                        "def pulse():\n    return arm.read_us()\np2 = pulse() + 0.25\nmon.write(1 if p2 > 1013.3 else 0)\nang = arm.read()\nmon.write(1 if ang > 45.25 else 0)\n"
                                        "half = arm.read_us() / 2\nmon.write(1 if half > 506.5 else 0)\n"
                                        "while True:\n    arm.write(90.5)\n    late = arm.read_us()\n    mon.write(1 if late > 1477.1 else 0)\n    twice = arm.read() * 2\n    mon.write(1 if twice > 180.5 else 0)\n",
    "rawt-motor-queries-through-names": "from Reduino.Actuators import DCMotor\nm = DCMotor(4, 5, 6)\nm.set_speed(0.25)\nsp = m.get_speed()\nmon.write(1 if sp > 0.2 else 0)\n"
                                        "def applied():\n    return m.get_applied_speed()\nap = applied() * 2\nmon.write(1 if ap > 0.4 else 0)\n"
                                        "while True:\n    m.set_speed(-0.5)\n    back = m.get_speed()\n    mon.write(1 if back < -0.4 else 0)\n",
}


def check(run) -> None:
    quick = run.tier == "quick"
    run.cov["rule"] = ("a case = one TypeFlow (type sequence x site) or one expression whose result is stored in a variable, in the clean "
                       "stratum (no name changes type, no known-finding trigger), executed as firmware + CPython and judged by TLC on values "
                       "and on declared-type coverage; distinct = distinct snippet x placement")
    run.assumptions += ["declared types are read from the emitted text by a light scanner over the emitter's regular output",
                        "Covers: float covers int/bool/float; int covers int/bool; bool covers bool; String covers str"]
    counts: dict = {}
    st = Strata(run, "C02")
    cases = langgen.family_cases("tflow", 2, run)
    snips = langgen.tflow_snippets(cases)
    rt = langgen.result_type_snippets(langgen.family_cases("bin", run=run) + langgen.family_cases("cmp", run=run))
    if quick:
        rt = random.Random(run.seed).sample(rt, 500)
    snips += rt
    snips += langgen.type_label_snippets()
    # value-dependent expressions whose arm (and with it the type the new name needs) is selected by a routed value
    snips += [s for s in langgen.fold_snippets() if s["site"] in ("assign", "select-type", "select-arm", "minmax")]
    byid, singles = {}, []
    for s in snips:
        p = langgen.single(s)
        byid[p["id"]] = s
        singles.append(p)
    clean = [byid[p["id"]] for p in st.split(singles, "typeflows")]
    run_packed(run, clean, "setup", "typeflow", counts, size=24, types=True)
    tf = [s for s in clean if s["fam"].startswith("tflow")]
    run_packed(run, tf, "loop", "typeflow", counts, size=24, prefix="pkl", types=True)
    if not quick:
        run_packed(run, clean, "function", "typeflow", counts, size=24, prefix="pkf", types=True)
    whole = st.split(langgen.fn_programs(), "function programs")
    res = lang.three_way(whole, run, "function programs")
    for p in whole:
        run.count(f"prog:{p['id']}")
        judge(run, p, res[p["id"]], "program", counts, types=True)
    langprobes.run_probes(run, "C02")
    # results of device queries stored in variables / returned by helpers (outside the Lang grammar): firmware against CPython
    from checks.c01 import raw_values
    raw_values(run, RAW_TYPE_SCRIPTS)
    run.cov["outcomes"] = counts
    run.cov["probe_stratum_candidates"] = {k: len(v) for k, v in st.probe.items()}


def replay(path: str) -> int:
    if "raw" in json.load(open(path)):
        from checks.c01 import replay_raw
        return replay_raw(path, RAW_TYPE_SCRIPTS, "C02")
    r = json.load(open(path))
    p = r["program"]
    res = lang.three_way([p])[p["id"]]
    o = langcheck.outcome(res)
    print(json.dumps({"outcome": o, "narrowed": res["verdict"]["narrowed"], "fw": res["verdict"]["fw"]}))
    if o in ("mismatch", "run_fail") or (o == "ok" and res["verdict"]["narrowed"]):
        print(f"VIOLATION property=C02 replay={path}")
        return 1
    return 0


def selftest(seed: int) -> int:
    """Negative control: a float-valued name with a forged `int` declaration must be reported as narrowed."""
    from harness.lang import PROG, ASSIGN, WRITE, AREAD, BIN, V, F
    from harness.tlc import run_tlc, write_json
    p = PROG([ASSIGN("x", BIN("*", AREAD(), F(0.5))), WRITE(V("x"))], ain=[3], pid="st")
    r = lang.three_way([p])["st"]
    recs = []
    for name, decl in (("orig", r["decl"]), ("forged", {**r["decl"], "x": "int"})):
        q = lang.strip_for_tlc(p)
        q.update({"id": name, "fw": {"status": "ok", "ev": r["fw"]["ev"]}, "py": {"status": "skip", "ev": []}, "decl": decl})
        recs.append(q)
    res = run_tlc("LangTrace", "LangTrace.cfg", env={"PROGS_FILE": str(write_json("st.json", recs))}, workers=1)
    v = {x["id"]: x["narrowed"] for x in res.json}
    print(v)
    return 0 if v["orig"] == [] and v["forged"] == ["x"] else 1
