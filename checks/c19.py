"""C19 - host actuator models keep their invariants under every operation history.

Decided by: (1) TLC model-checks the four device specifications (Led, RGBLed, Servo, DCMotor; side = "host")
exhaustively over the argument grids - every invariant / action property named by the property holds in every
reachable state, i.e. under every history over the grid; (2) TLC generates call histories (all of length 2,
random walks of length 8-12); (3) each history is executed on the real class from /repo's working tree and the
recorded trace (outcome, full projected state, waveform of levels and sleeps after every call) is validated
by TLC against the same specification, with every invariant evaluated on the implementation's own states."""
from __future__ import annotations

import json

from harness import devcheck
from harness.devcheck import DEV, HOST, calls_of
from harness.tracecheck import validate

LEVEL = "model_checking"
TYPINGS = {"led": ["int", "float", "bool", "frac"], "rgb": ["int", "float", "bool"], "servo": ["float", "int"], "motor": ["float", "int"]}


def host_traces(dev: str, hs: list, typings: list[str]) -> list[dict]:
    out = []
    for i, h in enumerate(hs):
        for ty in typings:
            t = {"id": f"{dev}-{i}-{ty}", "side": "host", "ev": HOST[dev](h, ty)}
            if dev == "servo":
                t["cal"] = h["cal"]
            out.append(t)
    return out


def check(run) -> None:
    quick = run.tier == "quick"
    run.cov["rule"] = ("a case = one call history (TLC-generated: exhaustive length 2 over the grid + -simulate walks) executed on the real "
                       "host class in one argument typing (int/float/bool); distinct = distinct (device, history, typing); non-trivial = "
                       "history contains at least one state-changing or raising call (every generated history does)")
    run.assumptions += ["sleep() is observed through the documented package-level indirection Reduino.Actuators.sleep",
                        "argument grids: boundary, in-range and out-of-range values per parameter (tla/*MC.tla)",
                        "TLC integers are 32 bit: servo values in milli-units, motor speeds in 1/20000, durations in microseconds"]
    for dev in DEV:
        devcheck.model_check(dev, "quick" if quick else "full", run)
        hs = devcheck.generate(dev, "quick" if quick else "full", 2, run)
        cap = 1200 if quick else 30000
        hs = devcheck.sample(hs, cap, run.seed)
        walks = devcheck.generate(dev, "full", 8 if quick else 12, run, simulate=150 if quick else 3000, seed=run.seed)
        walks = devcheck.sample(devcheck.dedup(walks), 150 if quick else 3000, run.seed)
        allh = hs + walks
        typings = TYPINGS[dev][:1] if quick else TYPINGS[dev]
        traces = host_traces(dev, allh, typings)
        if quick:  # the other typings on a sample
            traces += host_traces(dev, devcheck.sample(allh, 200, run.seed + 1), TYPINGS[dev][1:])
        verdicts = validate(DEV[dev]["trace"], DEV[dev]["trace"] + ".cfg", traces, run, label=f"{dev} host")
        byid = {t["id"]: t for t in traces}
        for t in traces:
            run.count(t["id"])
        run.sample({"device": dev, "history": allh[0], "trace": traces[0]["ev"][:3]})
        for tid, v in verdicts.items():
            if not v["ok"]:
                t = byid[tid]
                i = int(tid.split("-")[1])
                run.violation(f"{dev}: host class leaves the specification at call {v['l'] - 1} ({v['clause']}): "
                              f"{json.dumps(t['ev'][v['l'] - 1])[:300]}",
                              {"device": dev, "history": allh[i], "typing": tid.split("-")[2], "verdict": v, "trace": t["ev"]})


def replay(path: str) -> int:
    r = json.load(open(path))
    dev = r["device"]
    t = {"id": "replay", "side": "host", "ev": HOST[dev](r["history"], r["typing"])}
    if dev == "servo":
        t["cal"] = r["history"]["cal"]
    v = validate(DEV[dev]["trace"], DEV[dev]["trace"] + ".cfg", [t])["replay"]
    print(json.dumps(v))
    if not v["ok"]:
        print(f"VIOLATION property=C19 replay={path}")
        return 1
    return 0


def selftest(seed: int) -> int:
    """Negative controls: corrupt one logged field of an accepted trace -> must be rejected at that event."""
    import copy
    bad = 0
    for dev in DEV:
        from harness.result import Run
        hs = devcheck.generate(dev, "quick", 2, Run("C19", "quick", seed))
        t = host_traces(dev, hs[len(hs) // 2:len(hs) // 2 + 1], TYPINGS[dev][:1])[0]
        c = copy.deepcopy(t)
        c["id"] = "corrupt"
        e = c["ev"][-1]
        if dev == "led":
            e["bright"] = (e["bright"] + 7) % 256
        elif dev == "rgb":
            e["col"][1] = (e["col"][1] + 9) % 256
        elif dev == "servo":
            e["pulse"] += 5000
        else:
            e["applied"] += 777
        v = validate(DEV[dev]["trace"], DEV[dev]["trace"] + ".cfg", [t, c])
        print(dev, "original:", v[t["id"]]["ok"], "corrupted:", v["corrupt"])
        if not v[t["id"]]["ok"] or v["corrupt"]["ok"]:
            bad += 1
    return 1 if bad else 0
