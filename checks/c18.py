"""C18 - LCD animations never block, stay inside their row, finish unless looping, are rate-limited by speed_ms
and are ticked once per loop() pass; the host LCD.tick obeys the same invariants and never raises.

Decided by the TLA+ specification tla/LCDAnim.tla:
 (1) TLC model-checks it exhaustively (LCDAnimMC: 4 styles x text length 0..cols+2 x cols 1..5 x loop x speeds x
     every tick-time sequence over the deltas {0,1,speed-1,speed,speed+1,3 speed}, both padding rules, clock at 0
     or running): FrameWidth, FrameInsideRow, NonLoopingStops (<= 2(len+cols)+4 steps), LoopingNeverStops,
     RateLimit, StartNeverBlocks, TickOncePerPass; LCDAnimLive adds the liveness <>~active of every non-looping
     animation under weak fairness of the advancing tick, on a reduced model without any state constraint;
 (2) TLC generates behaviours (displays, animation parameters, clock schedule): the whole parameter grid x five
     tick-time patterns (BFS), random walks with several animations on 1-3 displays (-simulate), and probes
     whose animation is started inside the main loop / from a user function;
 (3) every behaviour is executed on the real host class (animate, then tick(now) per pass: dump(), active flags,
     exceptions, sleeps recorded) and - rendered as a Reduino script, transpiled, compiled against the mock
     Arduino core and run with the scripted clock - on real firmware (millis reads, LCD cell writes, delay
     calls, pass markers); both traces are validated event by event by TLC (LCDAnimTrace, impl = host | fw)."""
from __future__ import annotations

import concurrent.futures as cf
import copy
import json
import random
import re
import threading

from harness import lcd_anim as L
from harness import fw as fwmod
from harness import tlc as _tlc
from harness.common import MachineryError, scratch
from harness.tlc import run_tlc
from harness.tracecheck import validate

LEVEL = "model_checking"
INVARIANTS = ["TypeOK", "FrameWidth", "NonLoopingStops", "LoopingNeverStops", "StartNeverBlocks", "TickedAtMostOnce",
              "StepsMatchImplementations"]
PROPERTIES = ["FrameInsideRow", "StoppedStaysStopped", "RateLimit", "TickOncePerPass"]
ACTIONS = ["MCStart", "MCPass", "MCAdvance", "MCTooEarly", "MCInactive"]
KNOWN_LOOP = "loop-start-never-ticked"
KNOWN_DEF = "animate-in-function"
PATTERNS = ["ontime", "late", "early", "mix", "zero"]
RE_DEF = re.compile(r"__redu_lcd_anim_\w+\W+was not declared in this scope")


def _mc_cfg(cols: str, rows: str, speeds: str, maxanims: int, lens: str) -> str:
    return ("SPECIFICATION MCSpec\nCONSTANTS\n"
            f"  ColsG <- {cols}\n  RowsG <- {rows}\n  SpeedsG <- {speeds}\n  MaxAnims = {maxanims}\n  LensG <- {lens}\n"
            "VIEW MCView\nCONSTRAINT StepsCap\n" + "".join(f"INVARIANT {i}\n" for i in INVARIANTS)
            + "".join(f"PROPERTY {p}\n" for p in PROPERTIES) + "CHECK_DEADLOCK FALSE\n")


def _gen_consts(maxpass: int, maxa: int, patterns: list[str], speeds: str = "SpeedsFull") -> str:
    pats = ", ".join(f'"{p}"' for p in patterns)
    return ("CONSTANTS\n  ColsG <- ColsFull\n  RowsG <- RowsTwo\n"
            f"  SpeedsG <- {speeds}\n  MaxAnims = 1\n  LensG <- LensAll\n"
            f"  MaxPass = {maxpass}\n  MaxA = {maxa}\n  PatternsG = {{{pats}}}\n")


def model_check(quick: bool):
    """The spec-level runs (independent of the implementation): started in the background, joined at the end."""
    out = []
    res = run_tlc("LCDAnimMC", _mc_cfg("ColsFull", "RowsOne", "SpeedsQuick" if quick else "SpeedsFull", 1, "LensAll"),
                  workers=8, timeout=1200, coverage=True)
    out.append((res, f"LCDAnimMC exhaustive: 1 animation, cols 1..5, len 0..cols+2, speeds {'{0,1,5}' if quick else '{0,1,100}'}, "
                     f"{len(INVARIANTS)} invariants + {len(PROPERTIES)} action properties", True))
    if not quick:
        res2 = run_tlc("LCDAnimMC", _mc_cfg("ColsPair", "RowsTwo", "SpeedsOne", 2, "LensEdge"), workers=8, timeout=1500)
        out.append((res2, "LCDAnimMC exhaustive: 2 animations on one 2-row display (same or different rows), cols 2..3", False))
    live = run_tlc("LCDAnimLive", "LCDAnimLive.cfg", workers=4, timeout=900)
    out.append((live, "LCDAnimLive: <>~active for every non-looping animation under WF of the advancing tick (no constraint)", False))
    return out


def _thread_safe_tlc() -> None:
    scratch()        # create the scratch directory on the main thread (harness.tlc allocates ids under a lock)


class _Rec:
    """Collects the bookkeeping of work done in a helper thread; applied to the Run on the main thread."""

    def __init__(self) -> None:
        self.tlc: list = []
        self.ntraces = 0

    def add_tlc(self, res, label: str = "") -> None:
        self.tlc.append((res, label))

    def traces(self, n: int) -> None:
        self.ntraces += n

    def apply(self, run) -> None:
        for res, label in self.tlc:
            run.add_tlc(res, label)
        run.traces(self.ntraces)


def _gen_grid(maxpass: int):
    return run_tlc("LCDAnimGen", "INIT GridInit\nNEXT GridNext\n" + _gen_consts(maxpass, 4, PATTERNS)
                   + "CONSTRAINT Emit\nINVARIANT FrameWidth\nINVARIANT NonLoopingStops\nINVARIANT LoopingNeverStops\nCHECK_DEADLOCK FALSE\n",
                   workers=4, timeout=900)


def _gen_walk(nwalk: int, wpass: int, seed: int):
    return run_tlc("LCDAnimGen", "INIT WalkInit\nNEXT WalkNext\n" + _gen_consts(wpass, 4, PATTERNS)
                   + "CONSTRAINT EmitSim\nINVARIANT FrameWidth\nINVARIANT NonLoopingStops\nCHECK_DEADLOCK FALSE\n",
                   workers=1, timeout=900, simulate=f"num={nwalk}", depth=wpass + 6, seed=seed)


def _gen_probe():
    return run_tlc("LCDAnimGen", "INIT ProbeInit\nNEXT ProbeNext\n" + _gen_consts(6, 4, PATTERNS) + "CONSTRAINT EmitProbe\nCHECK_DEADLOCK FALSE\n",
                   workers=1, timeout=600)


def generate(run, quick: bool, pool) -> dict:
    maxpass = 26 if quick else 34
    nwalk, wpass = (50, 36) if quick else (500, 48)
    fg, fw_, fp = pool.submit(_gen_grid, maxpass), pool.submit(_gen_walk, nwalk, wpass, run.seed), pool.submit(_gen_probe)
    grid, walk, probe = fg.result().need_ok(), fw_.result().need_ok(), fp.result().need_ok()
    run.add_tlc(grid, f"LCDAnimGen grid (BFS): styles x cols 1..5 x loop x speeds {{0,1,100}} x 5 patterns, one display per text length, <= {maxpass} passes")
    run.add_tlc(walk, f"LCDAnimGen walks (-simulate num={nwalk}): 1-3 displays, 1-4 animations, {wpass} passes of random deltas")
    run.add_tlc(probe, "LCDAnimGen probes (BFS): animation started during pass 1/2 or from a user function")
    seen, walks = set(), []
    for h in walk.json:            # TLC prints every candidate successor of the last step: keep one per walk
        k = json.dumps([h.get("geo"), h.get("anims"), h.get("t0"), h.get("deltas", [])[:-1]], sort_keys=True)
        if len(h.get("deltas", [])) == wpass and k not in seen:
            seen.add(k)
            walks.append(h)
    if not grid.json or not walks or not probe.json:
        raise MachineryError("LCDAnimGen produced no behaviours")
    return {"grid": grid.json, "walk": walks, "probe": probe.json}


def _what(leg: str, h: dict, ev: list, v: dict) -> str:
    e = ev[v["l"] - 1] if 0 < v["l"] <= len(ev) else {}
    brief = {k: e.get(k) for k in ("e", "k", "d", "style", "row", "speed", "loop", "now", "active", "delays", "oob", "exc") if e.get(k) not in (None, "", [], 0, False)}
    return (f"{leg}: trace leaves LCDAnim at event {v['l']} ({v['clause']}); animations={json.dumps(h['anims'])[:300]} "
            f"t0={h['t0']} deltas={h['deltas'][:12]}... event={json.dumps(brief)[:300]}")


def host_traces(hs: list, label: str) -> tuple[list, dict]:
    traces, meta = [], {}
    for i, h in enumerate(hs):
        tid = f"host-{label}-{i}"
        ev = L.host_trace(h)
        traces.append(L.trace(tid, "host", h, ev))
        meta[tid] = (h, ev)
    return traces, meta


def _validate(traces: list, label: str):
    rec = _Rec()
    return validate("LCDAnimTrace", "LCDAnimTrace.cfg", traces, rec, label=label), rec


def host_verdicts(run, traces: list, meta: dict, verdicts: dict, rec: _Rec) -> None:
    rec.apply(run)
    for t in traces:
        run.count(("host", json.dumps(meta[t["id"]][0], sort_keys=True)))
    run.sample({"leg": "host", "behaviour": meta[traces[0]["id"]][0], "trace_head": traces[0]["ev"][:2]})
    for tid, v in verdicts.items():
        if not v["ok"]:
            h, ev = meta[tid]
            run.violation(_what("host LCD", h, ev, v), {"leg": "host", "h": h, "verdict": v, "trace": ev})


def fw_leg(run, hs: list, label: str, probes: bool = False) -> None:
    res = L.run_fw(hs)
    traces, meta = [], {}
    for i, (h, x) in enumerate(zip(hs, res)):
        tid = f"fw-{label}-{i}"
        run.count(("fw", json.dumps(h, sort_keys=True)))
        if x["ev"] is None:
            via_def = any(p.get("via") == "def" for p in h["anims"])
            if via_def and x["transpile"] == "accept" and x["compile"] == "fail" and RE_DEF.search(x.get("stderr", "")):
                run.violation("LCD.animate called inside a user-defined function: the emitted sketch does not declare the "
                              "animation state before the function (g++: '__redu_lcd_anim_* was not declared'), and no tick is emitted",
                              {"leg": "fw", "h": h, "script": x["script"]}, finding=KNOWN_DEF)
            else:
                run.violation(f"firmware: {x['why']} (animations={json.dumps(h['anims'])[:300]})",
                              {"leg": "fw", "h": h, "script": x["script"], "why": x["why"]})
            continue
        traces.append(L.trace(tid, "fw", h, x["ev"]))
        meta[tid] = (h, x)
    if not traces:
        return
    verdicts = validate("LCDAnimTrace", "LCDAnimTrace.cfg", traces, run, label=f"firmware {label}")
    if not probes:
        run.sample({"leg": "fw", "behaviour": hs[0], "script": res[0]["script"]["src"].splitlines()[8:], "inputs": res[0]["script"]["inputs"]})
    for tid, v in verdicts.items():
        h, x = meta[tid]
        for kf in v.get("known", []) or []:
            run.violation(f"animation started inside the `while True:` body is never ticked (loop() holds the start call and no tick): "
                          f"{json.dumps(h['anims'][-1])}", {}, finding=kf)
        if not v["ok"]:
            run.violation(_what("firmware", h, x["ev"], v),
                          {"leg": "fw", "h": h, "verdict": v, "script": x["script"], "trace": x["ev"]})


TICK_PLACEMENTS = {
    "in-try-body": ["try:", '    lcd1.animate("scroll", 0, "hello world", speed_ms=100, loop=True)', "except Exception as e:", "    pass"],
    "in-except-handler": ["try:", "    sleep(1)", "except Exception as e:", '    lcd1.animate("blink", 1, "err", speed_ms=100, loop=True)'],
    "in-both-clauses": ["try:", '    lcd1.animate("typewriter", 0, "abc", speed_ms=50, loop=False)', "except Exception as e:",
                        '    lcd1.animate("bounce", 1, "zz", speed_ms=70, loop=True)'],
    "in-branch-in-for": ["for q in range(1):", "    if q == 0:", '        lcd1.animate("scroll", 1, "hello", speed_ms=100, loop=True)'],
    "in-while": ["w = 0", "while w < 1:", "    w += 1", '    lcd1.animate("blink", 0, "hi", speed_ms=100, loop=True)'],
}


def tick_text_probe(run) -> None:
    """Animations started inside compound statements of the set-up code (try / except clauses do not compile on the mock core - the
    known C06 finding try-except - so these are judged on the emitted text): every `__redu_lcd_start_<style>(<state>, ...)` has its
    `__redu_lcd_tick_<style>(<state>, ...)` in loop(), once.  An animation that is started but never ticked never advances."""
    hdr = ["from Reduino import target", "from Reduino.Displays import LCD", "from Reduino.Utils import sleep", 'target("COM3", upload=False)',
           "lcd1 = LCD(i2c_addr=0x27, cols=16, rows=2)"]
    for name, body in TICK_PLACEMENTS.items():
        src = "\n".join(hdr + body + ["while True:", "    sleep(10)"]) + "\n"
        t = fwmod.transpile(src)
        run.count(("tick-text", name))
        if t["status"] != "accept":
            continue                                  # refusing the placement is allowed
        cpp = t["cpp"]
        loop = cpp[cpp.find("void loop()"):]
        starts = re.findall(r"__redu_lcd_start_(\w+)\((\w+)", cpp[:cpp.find("void loop()")])
        for style, state in starts:
            n = len(re.findall(rf"__redu_lcd_tick_{style}\({state}\b", loop))
            if n != 1:
                run.violation(f"animation started {name} is ticked {n} times per loop() pass (style {style}, state {state}): it is started but "
                              f"{'never advanced' if n == 0 else 'advanced more than once'}", {"leg": "fw-text", "placement": name, "script": src, "loop": loop[:1200]})
        if not starts:
            run.violation(f"animate() {name} is accepted but no animation is started in setup()", {"leg": "fw-text", "placement": name, "script": src})


def _stratified(hs: list, per_group: int, seed: int) -> list:
    """A sample of the grid behaviours in which every (style, loop, speed) occurs, with varying width and pattern."""
    groups: dict = {}
    for h in hs:
        p = h["anims"][0]
        groups.setdefault((p["style"], p["loop"], p["speed"]), []).append(h)
    rnd = random.Random(seed)
    out = []
    for key in sorted(groups, key=str):
        g = sorted(groups[key], key=lambda h: json.dumps(h, sort_keys=True))
        rnd.shuffle(g)
        picked, seen = [], set()
        for h in g:                                    # distinct widths and patterns first
            tag = (h["geo"][0]["cols"], h["pat"])
            if tag[0] in {t[0] for t in seen} or tag[1] in {t[1] for t in seen}:
                continue
            seen.add(tag)
            picked.append(h)
            if len(picked) == per_group:
                break
        out += picked if len(picked) == per_group else g[:per_group]
    return out


def check(run) -> None:
    quick = run.tier == "quick"
    run.cov["rule"] = ("a case = one TLC-generated behaviour (displays, animation parameters, start clock, one clock increment per pass) "
                       "executed on one leg (host class | firmware); distinct = distinct (leg, behaviour); every behaviour starts at least "
                       "one animation and ticks it until it has finished or for 26-48 passes; the grid family covers every "
                       "(style, cols 1..5, text length 0..cols+2, loop, speed in {0,1,100}) x 5 tick-time patterns")
    run.assumptions += [
        "firmware semantics = emitted C++ compiled with host g++ against /verif/mock; millis() is the scripted virtual clock",
        "a firmware tick is identified by its millis() read (a finished animation returns before reading the clock)",
        "a due tick advances: last = 0 means no step was taken with the clock running (both implementations and the property's "
        "'once the millisecond clock is running' agree)",
        "frames are those of the documented host class; the scroll padding rule is the only implementation-specific rule (impl)",
        "speed_ms >= 0, rows within the display, ASCII text; quick tier model-checks speeds {0,1,5}, thorough {0,1,100}",
    ]
    _thread_safe_tlc()
    import Reduino.Displays  # noqa: F401  (imported on the main thread before helper threads / worker processes exist)
    import Reduino.transpile.parser  # noqa: F401
    import Reduino.transpile.emitter  # noqa: F401
    with cf.ThreadPoolExecutor(max_workers=5) as pool:
        mc = pool.submit(model_check, quick)
        gen = generate(run, quick, pool)
        rnd = random.Random(run.seed)
        walks = gen["walk"] if not quick else gen["walk"][:50]
        # host leg: the real class is driven here (main thread), TLC validates in the background
        tg, mg = host_traces(gen["grid"], "grid")
        tw, mw = host_traces(walks + gen["probe"], "walks")
        vg = pool.submit(_validate, tg, "host grid")
        vw = pool.submit(_validate, tw, "host walks+probes")
        # firmware leg
        fw_grid = _stratified(gen["grid"], 2, run.seed) if quick else gen["grid"]
        fw_walks = walks[:22] if quick else walks[:300]
        fw_leg(run, fw_grid + fw_walks, "behaviours")
        # long texts and long tick histories (hand-written behaviours in the generator's format, judged by the same trace
        # specification): a marquee that is many times the row width runs through and stops, a long typewriter line completes
        longs = [{"geo": [{"cols": 16, "rows": 2}], "deltas": [3] * 300, "t0": 1, "pat": "long",
                  "anims": [{"d": 1, "row": 0, "n": 240, "at": 0, "style": "scroll", "speed": 2, "loop": False, "via": "main"}]},
                 {"geo": [{"cols": 20, "rows": 4}], "deltas": [2] * 290, "t0": 7, "pat": "long",
                  "anims": [{"d": 1, "row": 1, "n": 262, "at": 0, "style": "typewriter", "speed": 1, "loop": False, "via": "main"},
                            {"d": 1, "row": 3, "n": 236, "at": 0, "style": "scroll", "speed": 1, "loop": False, "via": "main"}]}]
        # restarts (hand-written, same format, same trace specification): an animation is started after an earlier one has run to
        # its end, on the row and in the style of one that is still running; the newcomer finishes too and the looping one
        # underneath has to be seen moving again afterwards
        for n, (s0, s1, r0) in enumerate((("typewriter", "scroll", 0), ("scroll", "bounce", 0), ("blink", "scroll", 1), ("typewriter", "typewriter", 1))):
            longs.append({"geo": [{"cols": 16, "rows": 2}], "deltas": [5] * 60, "t0": 1 + n, "pat": "long",
                          "anims": [{"d": 1, "row": r0, "n": 3, "at": 0, "style": s0, "speed": 1, "loop": False, "via": "main"},
                                    {"d": 1, "row": 1, "n": 20 + n, "at": 0, "style": s1, "speed": 5, "loop": True, "via": "main"},
                                    {"d": 1, "row": 1, "n": 4, "at": 14 + n, "style": s1, "speed": 3, "loop": False, "via": "main"},
                                    {"d": 1, "row": 1 - r0, "n": 5, "at": 40, "style": s1, "speed": 2, "loop": False, "via": "main"}]})
        tl, ml = host_traces(longs, "long")
        vl = pool.submit(_validate, tl, "host long behaviours")
        fw_leg(run, longs, "long")
        host_verdicts(run, tl, ml, *vl.result())
        probes = sorted(gen["probe"], key=lambda h: json.dumps(h, sort_keys=True))
        if quick:
            rnd.shuffle(probes)
            keep, seen = [], set()
            for h in probes:                              # one probe per (placement, with/without a setup animation)
                p = h["anims"][-1]
                tag = (p["at"], p["via"], len(h["anims"]))
                if tag not in seen:
                    seen.add(tag)
                    keep.append(h)
            probes = keep
        fw_leg(run, probes, "probes", probes=True)
        tick_text_probe(run)
        host_verdicts(run, tg, mg, *vg.result())
        host_verdicts(run, tw, mw, *vw.result())
        for res, label, need_cov in mc.result():
            if not res.ok:
                raise MachineryError(f"{label}: spec-level check failed: {res.error} {res.violated}\n{res.stdout[-2500:]}")
            if need_cov and any(res.coverage.get(a, (0, 0))[1] == 0 for a in ACTIONS):
                raise MachineryError(f"{label}: an action was never taken (vacuous model): {res.coverage}")
            run.add_tlc(res, label)
    run.cov["legs"] = {"host_behaviours": len(tg) + len(tw), "firmware_behaviours": len(fw_grid) + len(fw_walks) + len(probes)}


# ---------------------------------------------------------------------------------------------------------
def replay(path: str) -> int:
    r = json.load(open(path))
    if r.get("leg") == "fw-text":
        class _R:
            def __init__(self):
                self.v = []
            def count(self, *_a, **_k):
                pass
            def violation(self, what, rep=None, **_k):
                if (rep or {}).get("placement") == r["placement"]:
                    self.v.append(what)
        rr = _R()
        tick_text_probe(rr)
        print(json.dumps(rr.v))
        if rr.v:
            print(f"VIOLATION property=C18 replay={path}")
            return 1
        return 0
    h, leg = r["h"], r["leg"]
    if leg == "host":
        ev = L.host_trace(h)
    else:
        x = L.run_fw([h])[0]
        if x["ev"] is None:
            print(x["why"])
            print(f"VIOLATION property=C18 replay={path}")
            return 1
        ev = x["ev"]
    v = validate("LCDAnimTrace", "LCDAnimTrace.cfg", [L.trace("replay", leg, h, ev)])["replay"]
    print(json.dumps(v))
    if not v["ok"]:
        print(f"VIOLATION property=C18 replay={path}")
        return 1
    return 0


def selftest(seed: int) -> int:
    """Negative controls: an accepted trace with one logged field corrupted / one event dropped must be rejected at
    that event with the matching clause; the liveness property must fail without fairness."""
    h = {"geo": [{"cols": 4, "rows": 2}, {"cols": 3, "rows": 2}],
         "anims": [{"d": 1, "style": "scroll", "row": 0, "n": 2, "speed": 100, "loop": False, "at": 0, "via": "top"},
                   {"d": 1, "style": "bounce", "row": 1, "n": 2, "speed": 0, "loop": True, "at": 0, "via": "top"},
                   {"d": 2, "style": "typewriter", "row": 0, "n": 4, "speed": 7, "loop": False, "at": 0, "via": "top"}],
         "t0": 1, "deltas": [0, 1, 99, 100, 101, 300, 0, 7, 7, 100, 100, 100, 100]}
    hev = L.host_trace(h)
    x = L.run_fw([h])[0]
    if x["ev"] is None:
        print("selftest: firmware leg failed:", x["why"])
        return 2
    fev = x["ev"]
    cases: list[tuple[dict, int | None, str]] = []

    def case(tid, impl, ev, at, clause):
        cases.append((L.trace(tid, impl, h, ev), at, clause))

    case("host-orig", "host", hev, None, "")
    case("fw-orig", "fw", fev, None, "")
    c = copy.deepcopy(hev); c[5]["cells"][0][0][1] = 120; case("host-cell", "host", c, 6, "frame-content")
    c = copy.deepcopy(hev); c[6]["cells"][1][0].append(32); case("host-width", "host", c, 7, "FrameWidth")
    c = copy.deepcopy(hev); c[4]["exc"] = "IndexError"; case("host-raise", "host", c, 5, "NeverRaises")
    c = copy.deepcopy(hev); c[0]["delays"] = 1; case("host-start-sleeps", "host", c, 1, "StartNeverBlocks")
    c = copy.deepcopy(hev); c[-1]["active"][0] = True; case("host-never-stops", "host", c, len(c), "NonLoopingStops")
    c = copy.deepcopy(hev); c[7]["active"][1] = False; case("host-loop-stops", "host", c, 8, "LoopingNeverStops")
    c = copy.deepcopy(hev); del c[5]; case("host-drop-pass", "host", c, 6, "pass-order")
    c = copy.deepcopy(fev); c[5]["cells"][0][1][3] = 122; case("fw-cell", "fw", c, 6, "frame-content")
    c = copy.deepcopy(fev); c[4]["reads"][0]["delays"] = 1; case("fw-delay-in-tick", "fw", c, 5, "StartNeverBlocks")
    c = copy.deepcopy(fev); c[4]["reads"] = c[4]["reads"] + [dict(c[4]["reads"][-1], rows=[])]; case("fw-tick-twice", "fw", c, 5, "TickOncePerPass")
    c = copy.deepcopy(fev); c[6]["reads"] = c[6]["reads"][:-1]; case("fw-tick-missing", "fw", c, 7, "TickOncePerPass")
    c = copy.deepcopy(fev); c[5]["reads"][1]["rows"] = [0, 1]; case("fw-other-row", "fw", c, 6, "FrameInsideRow")
    c = copy.deepcopy(fev); c[5]["reads"][0]["oob"] = 1; case("fw-oob", "fw", c, 6, "FrameWidth")
    c = copy.deepcopy(fev); c[5]["cells"][1][1][2] = 65; case("fw-unowned-row", "fw", c, 6, "FrameInsideRow")
    # pass 2 comes 1 ms after the first step (speeds 100 and 7): forge it with the frames the class shows when that pass
    # comes 100 ms later, i.e. as if the steps had been taken early
    c = copy.deepcopy(hev)
    eev = L.host_trace(dict(h, deltas=[0, 100] + h["deltas"][2:]))
    c[4]["cells"], c[4]["active"] = eev[4]["cells"], eev[4]["active"]
    case("host-too-early-step", "host", c, 5, "RateLimit")
    v = validate("LCDAnimTrace", "LCDAnimTrace.cfg", [t for t, _, _ in cases])
    ok = True
    for t, at, clause in cases:
        r = v[t["id"]]
        good = (r["ok"] and at is None) or (not r["ok"] and r["l"] == at and r["clause"].startswith(clause))
        print(("ok   " if good else "FAIL ") + f"{t['id']}: {r}")
        ok = ok and good
    cfg = open("/verif/tla/LCDAnimLive.cfg").read().replace("SPECIFICATION LiveSpec", "SPECIFICATION LiveSpecUnfair")
    res = run_tlc("LCDAnimLive", cfg, workers=4, timeout=600)
    good = (not res.ok) and "EventuallyInactive was violated" in res.stdout
    print(("ok   " if good else "FAIL ") + "liveness without fairness is refuted by TLC")
    return 0 if ok and good else 1
