"""C12 - target(): validate first, transpile faithfully, upload only on request.

Decided by: (1) TLC model-checks tla/Target.tla - every order of events the workflow specification allows, for all
2 x 2 x 4 x 12 = 192 configurations (upload, PlatformIO present, pair ok / bad platform / bad board / mismatch, no
fault or a fault at one of the 11 steps) - against the eight invariants the property names (+ deadlock freedom:
a call without a result can always continue; + every event taken in both outcomes);  (2) TLC emits the 192
configurations with the outcome the specification determines;  (3) every configuration is executed against the
REAL Reduino.target() of /repo's working tree with recording fakes (harness/target_rec.py) and the fault injected,
for each of the scripts below;  (4) the recorded event traces are validated by TLC against the same step relation
(tla/TargetTrace.tla), the first forbidden event and its clause are reported."""
from __future__ import annotations

import copy
import json
import random
import shutil
import threading

from harness import common, target_rec
from harness.common import MachineryError
from harness.pio_rec import sha
from harness.tlc import run_tlc
from harness.tracecheck import validate

LEVEL = "model_checking"
KNOWN_ID = "target-no-pio-no-upload"
INVARIANTS = ["TypeOK", "NothingBeforeValidation", "PioOnlyIfUpload", "MissingPioIsRuntimeErrorBeforeWrite",
              "UploadOnlyAfterBuildOk", "RunIffUpload", "FailurePropagates", "ReturnsExactlyEmit", "IniNamesGivenConfig",
              "OutcomeDetermined"]

HEAD = "from Reduino import target\n"
LCD_P = "lcd = LCD(rs=12, en=11, d4=5, d5=4, d6=3, d7=2, cols=16, rows=2)\n"
LCD_I = "panel = LCD(i2c_addr=0x27, cols=20, rows=4)\n"
# (name, script text, libraries the script needs - by construction: Servo object -> Servo, parallel LCD ->
#  LiquidCrystal, I2C LCD -> LiquidCrystal_I2C), (port, platform, board) used for the "ok" pair
SCRIPTS = [
    ("led", HEAD + "from Reduino.Actuators import Led\ntarget(\"COM3\")\nled = Led(13)\nwhile True:\n    led.toggle()\n", [],
     ("COM3", "atmelavr", "uno")),
    ("servo", HEAD + "from Reduino.Actuators import Servo\ntarget(\"/dev/ttyACM0\")\ns = Servo(9)\ns.write(90)\n", ["Servo"],
     ("/dev/ttyACM0", "atmelavr", "nanoatmega328")),
    ("lcd-parallel", HEAD + "from Reduino.Displays import LCD\ntarget(\"COM4\")\n" + LCD_P + "lcd.write(0, 0, \"hi\")\n",
     ["LiquidCrystal"], ("com27", "atmelmegaavr", "nano_every")),
    ("lcd-i2c", HEAD + "from Reduino.Displays import LCD\ntarget(\"COM5\")\n" + LCD_I + "panel.write(0, 0, \"hi\")\n",
     ["LiquidCrystal_I2C"], ("/dev/cu.usbmodem14101", "atmelavr", "megaatmega2560")),
    ("servo+lcd-parallel", HEAD + "from Reduino.Actuators import Servo\nfrom Reduino.Displays import LCD\ntarget(\"COM3\")\n"
     "s = Servo(10)\n" + LCD_P + "s.write(10)\nlcd.write(0, 1, \"ok\")\n", ["Servo", "LiquidCrystal"], ("COM12", "atmelavr", "leonardo")),
    ("servo+lcd-i2c", HEAD + "from Reduino.Actuators import Servo\nfrom Reduino.Displays import LCD\ntarget(\"COM3\")\n"
     + LCD_I + "s = Servo(10)\ns.write(10)\n", ["Servo", "LiquidCrystal_I2C"], ("COM 12", "atmelmegaavr", "uno_wifi_rev2")),
    ("both-lcds", HEAD + "from Reduino.Displays import LCD\ntarget(\"COM3\")\n" + LCD_P + LCD_I + "lcd.clear()\npanel.clear()\n",
     ["LiquidCrystal", "LiquidCrystal_I2C"], ("COM3", "atmelavr", "digispark-pro")),
    ("all-three", HEAD + "from Reduino.Actuators import Servo, Led\nfrom Reduino.Displays import LCD\ntarget(\"COM3\")\n"
     "a = Servo(9)\nb = Servo(10)\n" + LCD_P + LCD_I + "led = Led(13)\nwhile True:\n    led.toggle()\n    a.write(45)\n",
     ["Servo", "LiquidCrystal", "LiquidCrystal_I2C"], ("/dev/ttyUSB0", "atmelavr", "uno")),
    ("plain-non-ascii", HEAD + "from Reduino.Communication import SerialMonitor\ntarget(\"COM3\")\n# grüße – 温度\n"
     "mon = SerialMonitor(9600, \"COM3\")\nx = 3\ny = x * 2 + 1\nmon.write(f\"°C {y}\")", [], ("COM3", "atmelavr", "ATmega328P")),
    ("two-servos-in-loop", HEAD + "from Reduino.Actuators import Servo, Buzzer\nfrom Reduino.Utils import sleep\ntarget(\"COM7\")\n"
     "bz = Buzzer(8)\nleft = Servo(5)\nright = Servo(6)\nfor i in range(3):\n    left.write(i * 10)\n    right.write(90)\n    sleep(10)\n",
     ["Servo"], ("COM7", "atmelmegaavr", "ATmega4809")),
]
OTHER_PLATFORM = {"atmelavr": "atmelmegaavr", "atmelmegaavr": "atmelavr"}
BAD_PLATFORMS = ["espressif32", "Atmelavr", "atmelavr ", ""]
BAD_BOARDS = ["uno2", "UNO", " uno", ""]


def reference(script: str) -> str:
    """The firmware source for the script's text, computed outside target(): emit(parse(text))."""
    from Reduino.transpile.emitter import emit
    from Reduino.transpile.parser import parse
    return emit(parse(script))


def pair_for(pairclass: str, ok: tuple, k: int) -> tuple:
    port, platform, board = ok
    if pairclass == "ok":
        return platform, board
    if pairclass == "bad_platform":
        return BAD_PLATFORMS[k % len(BAD_PLATFORMS)], board
    if pairclass == "bad_board":
        return platform, BAD_BOARDS[k % len(BAD_BOARDS)]
    return OTHER_PLATFORM[platform], board          # registered board, registered platform, not its platform


EXTRA_PORTS = ["COM10", "/dev/tty.usbserial-A50285BI", "/dev/serial/by-id/usb-Arduino__www.arduino.cc__0043_85-if00",
               "rfc2217://host:4000", "/dev/tty%d", "COM;1", "端口3", "a=b [x] #1"]


def variants(tier: str, seed: int) -> list[tuple]:
    """(name, script, libs, (port, platform, board)): the 10 scripts; thorough adds 4 more argument triples per script
    (unusual but INI-representable ports, boards drawn from the registry of the code under test)."""
    out = list(SCRIPTS)
    if tier == "thorough":
        from harness.pio_rec import registry
        reg = registry()
        rnd = random.Random(seed)
        for name, script, libs, ok in SCRIPTS:
            for k in range(4):
                platform = sorted(reg)[k % len(reg)]
                out.append((f"{name}~{k}", script, libs, (rnd.choice(EXTRA_PORTS), platform, rnd.choice(reg[platform]))))
    return out


def build_cases(configs: list[dict], tier: str = "quick", seed: int = 1) -> list[dict]:
    cases = []
    for si, (name, script, libs, ok) in enumerate(variants(tier, seed)):
        cpp = reference(script)
        for ci, c in enumerate(configs):
            platform, board = pair_for(c["pair"], ok, si)
            # a failing tool fails in more than one way: ordinary exit statuses and death by a signal (negative
            # return code of subprocess); the workflow must treat them all as failure
            rcs = [1]
            if c["fault"] in ("ProbePio", "Build", "Upload"):
                rcs = [1, -15] if tier == "quick" else [1, 2, 127, 255, -9, -15]
            # "PlatformIO absent" = the tool cannot be started: not on PATH, there but not executable, there but not runnable
            absents = [target_rec.ENOENT] if c["pio"] else [target_rec.ENOENT, target_rec.EACCES, target_rec.ENOEXEC]
            for rc, absent in [(r, a) for r in rcs for a in absents]:
                cases.append({"id": f"{name}/{'up' if c['upload'] else 'noup'}/{'pio' if c['pio'] else 'nopio'}/{c['pair']}/{c['fault']}"
                                    + ("" if rc == 1 else f"/rc{rc}") + ("" if absent == target_rec.ENOENT else f"/absent{absent}"),
                              "upload": c["upload"], "pio": c["pio"], "pair": c["pair"], "fault": c["fault"], "failrc": rc, "absent_rc": absent,
                              "platform": platform, "board": board, "port": ok[0], "script": script,
                              "src": sha(script), "cpp": sha(cpp), "libs": libs,
                              "expect": c["expect"], "trigger": c["trigger"]})
    return cases


def record(case: dict, workdir) -> dict:
    ev = target_rec.run_case(case, workdir)
    shutil.rmtree(workdir, ignore_errors=True)
    return {"id": case["id"],
            "cfg": {k: case[k] for k in ("upload", "pio", "pair", "platform", "board", "port", "src", "cpp", "libs")},
            "fault": case["fault"], "ev": ev}


def brief(ev: list[dict]) -> list[str]:
    out = []
    for e in ev:
        s = e["e"]
        if e["e"] == "Run":
            s += "(" + " ".join(e["argv"]) + f") rc={e['rc']}"
        elif e["s"]:
            s += f"({e['s']})"
        if e["fail"]:
            s += " FAILS"
        out.append(s)
    return out


def model_check(run) -> None:
    cfg = "SPECIFICATION Spec\n" + "".join(f"INVARIANT {i}\n" for i in INVARIANTS) + \
          "CONSTRAINT Witness\nPOSTCONDITION Taken\nCHECK_DEADLOCK TRUE\n"
    res = run_tlc("TargetMC", cfg, workers=1, timeout=600)
    if not res.ok:
        raise MachineryError(f"TargetMC: spec-level check failed: {res.error} {res.violated}\n{res.stdout[-2500:]}")
    taken = {(t[0], bool(t[1])) for o in res.json if isinstance(o, dict) and "taken" in o for t in o["taken"]}
    need = {(s, f) for s in target_rec.FAULT_STEPS for f in (False, True)} | {("MkDir", False), ("Return", False), ("Raise", False)}
    if not need <= taken:
        raise MachineryError(f"TargetMC: vacuous model, never taken: {sorted(need - taken)}")
    run.add_tlc(res, f"TargetMC exhaustive: 192 configurations x all allowed event orders, {len(INVARIANTS)} invariants, deadlock freedom, "
                     f"{len(taken)} (event, outcome) pairs witnessed")


def generate(run) -> list[dict]:
    res = run_tlc("TargetGen", "TargetGen.cfg", workers=1, timeout=300).need_ok()
    cfgs = [o for o in res.json if isinstance(o, dict) and "fault" in o]
    keys = {(c["upload"], c["pio"], c["pair"], c["fault"]) for c in cfgs}
    if len(keys) != 192:
        raise MachineryError(f"TargetGen: expected 192 configurations, got {len(keys)}")
    run.add_tlc(res, "TargetGen: 192 configurations with the specified outcome")
    return sorted(cfgs, key=lambda c: (c["upload"], c["pio"], c["pair"], c["fault"]))


def judge(run, cases: list[dict], traces: list[dict], verdicts: dict) -> None:
    byid = {t["id"]: t for t in traces}
    for c in cases:
        v, t = verdicts[c["id"]], byid[c["id"]]
        run.count(c["id"])
        replay = {"case": {k: c[k] for k in c if k != "script"}, "script": c["script"], "verdict": v, "events": brief(t["ev"]), "trace": t}
        if "MACHINERY" in (v.get("clause") or ""):
            raise MachineryError(f"{c['id']}: {v['clause']} at event {v['l']}: {brief(t['ev'])}")
        if not v["ok"]:
            run.violation(f"{c['id']}: target() leaves the specification at event {v['l']} ({v['clause']}): {' > '.join(brief(t['ev'])[:v['l']][-4:])}",
                          replay)
        elif v.get("known"):
            if not c["trigger"]:
                run.violation(f"{c['id']}: known deviation matched outside its trigger", replay)
            else:
                run.violation(f"upload=False and PlatformIO missing/broken: target() raises RuntimeError after the probe instead of returning "
                              f"the sketch ({c['id']}: {' > '.join(brief(t['ev']))})", replay, finding=KNOWN_ID)
        elif v.get("result") != c["expect"]:
            # cannot happen when the trace is accepted (OutcomeDetermined is an invariant of the trace spec)
            raise MachineryError(f"{c['id']}: accepted trace ends in {v.get('result')} but the specification determines {c['expect']}")


def check(run) -> None:
    run.cov["rule"] = ("a case = one configuration (upload x PlatformIO present x pair class x fault point; all 192, emitted by TLC) executed "
                       "against the real target() for one of 10 calling scripts with different library needs; distinct = distinct "
                       "(script, configuration); non-trivial = every case (each exercises validation and ends in Return or Raise)")
    run.assumptions += [
        "PlatformIO, the temp directory and the calling script are replaced by recording fakes (subprocess.Popen, os.system, shutil.which, "
        "tempfile.mkdtemp, sys.modules['__main__']); file effects are observed by an audit hook below pathlib/open",
        "a fault at step X makes every attempt of X fail (exit status 1 / ENOENT for tools, OSError for mkdtemp, a missing script, a "
        "directory in place of main.cpp / platformio.ini, an injected exception inside parse / library collection / emit / validation)",
        "libraries a script needs are known by construction of the 10 scripts; the reference sketch is emit(parse(text)) computed outside target()",
        "one fault per call; no concurrency"]
    mc_err: list = []

    def mc():
        try:
            model_check(run)
        except BaseException as e:  # noqa: BLE001
            mc_err.append(e)

    th = threading.Thread(target=mc)
    th.start()
    try:
        configs = generate(run)
        cases = build_cases(configs, run.tier, run.seed)
        work = common.subdir("c12")
        traces = [record(c, work / f"case{i}") for i, c in enumerate(cases)]
    finally:
        th.join()
    if mc_err:
        raise mc_err[0]
    verdicts = validate("TargetTrace", "TargetTrace.cfg", traces, run, label="target()")
    run.sample({"case": cases[0]["id"], "events": brief(traces[0]["ev"])})
    happy = next(i for i, c in enumerate(cases) if c["upload"] and c["pio"] and c["pair"] == "ok" and c["fault"] == "none")
    run.sample({"case": cases[happy]["id"], "events": brief(traces[happy]["ev"]), "project": traces[happy]["ev"][-1]["fs"]})
    run.cov["outcomes"] = {}
    for c in cases:
        last = next(t for t in traces if t["id"] == c["id"])["ev"][-1]
        k = last["e"] + (":" + last["s"] if last["e"] == "Raise" else "")
        run.cov["outcomes"][k] = run.cov["outcomes"].get(k, 0) + 1
    judge(run, cases, traces, verdicts)


def replay(path: str) -> int:
    r = json.load(open(path))
    c = dict(r["case"], script=r["script"])
    c["cpp"] = sha(reference(c["script"]))
    t = record(c, common.subdir("c12r") / "case")
    v = validate("TargetTrace", "TargetTrace.cfg", [t])[c["id"]]
    print(" > ".join(brief(t["ev"])))
    print(json.dumps(v))
    if not v["ok"] or v.get("known"):
        print(f"{'KNOWN-FINDING' if v['ok'] else 'VIOLATION'} property=C12 replay={path}")
        return 0 if v["ok"] else 1
    return 0


def selftest(seed: int) -> int:
    """Negative controls on real traces: each corruption must be rejected at the corrupted event with the named clause."""
    from harness.result import Run
    configs = generate(Run("C12", "quick", seed))
    cases = build_cases(configs)
    pick = next(c for c in cases if c["id"] == "all-three/up/pio/ok/none")
    t = record(pick, common.subdir("c12s") / "case")
    names = [e["e"] for e in t["ev"]]

    def mut(label, f):
        m = copy.deepcopy(t)
        m["id"] = label
        f(m)
        return m

    def idx(m, name, nth=0):
        return [i for i, e in enumerate(m["ev"]) if e["e"] == name or (e["e"] == "Run" and name in " ".join(e["argv"]))][nth]

    def swap(m, i, j):
        m["ev"][i], m["ev"][j] = m["ev"][j], m["ev"][i]

    def set_cfg(m, **kw):
        m["cfg"].update(kw)

    ctrl = [
        (mut("drop-validate", lambda m: m["ev"].pop(0)), 1, "NothingBeforeValidation"),
        (mut("probe-before-validate", lambda m: swap(m, 0, 1)), 1, "NothingBeforeValidation"),
        (mut("returned-other-text", lambda m: m["ev"][-1].update(s="0" * 16)), len(names), "ReturnsExactlyEmit"),
        (mut("ini-port-corrupted", lambda m: m["ev"][-1]["fs"]["ini"].update(port="COM9")), len(names), "IniNamesGivenConfig:port"),
        (mut("ini-lib-missing", lambda m: m["ev"][idx(m, "pio run")]["fs"]["ini"]["libs"].pop()), idx(t, "pio run") + 1, "IniNamesGivenConfig:libraries"),
        (mut("main-cpp-corrupted", lambda m: m["ev"][idx(m, "pio run")]["fs"].update(main="1" * 16)), idx(t, "pio run") + 1,
         "IniNamesGivenConfig:main.cpp-is-not-the-returned-sketch"),
        (mut("upload-before-build", lambda m: swap(m, idx(m, "pio run"), idx(m, "-t upload"))), idx(t, "pio run") + 1, "UploadOnlyAfterBuildOk"),
        (mut("drop-upload", lambda m: m["ev"].pop(idx(m, "-t upload"))), len(names) - 1, "RunIffUpload:return-without-upload"),
        (mut("drop-build", lambda m: m["ev"].pop(idx(m, "pio run"))), idx(t, "pio run") + 1, "UploadOnlyAfterBuildOk"),
        (mut("run-although-upload-false", lambda m: set_cfg(m, upload=False)), idx(t, "pio run") + 1, "RunIffUpload:build-without-upload"),
        (mut("write-before-probe", lambda m: m["ev"].insert(idx(m, "MkTmp"), m["ev"].pop(idx(m, "--version")))), idx(t, "MkTmp"),
         "MissingPioIsRuntimeErrorBeforeWrite:write-before-probe"),
        (mut("parsed-other-text", lambda m: m["ev"][idx(m, "Parse")].update(s="2" * 16)), idx(t, "Parse") + 1, "ReturnsExactlyEmit:parsed-text-is-not-the-script"),
        (mut("stray-write", lambda m: m["ev"].insert(3, dict(m["ev"][2], e="Other", s="write:/etc/x"))), 4, "unexpected-effect"),
        (mut("drop-result", lambda m: m["ev"].pop()), len(names) - 1, "trace-ends-without-result"),
    ]
    # failure controls: build fails but the upload runs anyway / the failure is swallowed
    fb = next(c for c in cases if c["id"] == "servo/up/pio/ok/Build")
    tb = record(fb, common.subdir("c12s") / "case2")
    good_upload = copy.deepcopy(next(e for e in t["ev"] if e["e"] == "Run" and "upload" in e["argv"]))
    good_upload["fs"] = copy.deepcopy(tb["ev"][-2]["fs"])
    m1 = copy.deepcopy(tb); m1["id"] = "upload-after-failed-build"; m1["ev"].insert(len(m1["ev"]) - 1, good_upload)
    m2 = copy.deepcopy(tb); m2["id"] = "failed-build-swallowed"
    m2["ev"][-1] = dict(m2["ev"][-1], e="Return", s=tb["cfg"]["cpp"], mro=[])
    ctrl += [(m1, len(tb["ev"]), "FailurePropagates"), (m2, len(tb["ev"]), "FailurePropagates")]
    # the known deviation must be matched exactly: another class, or a write before the raise, is a violation
    kc = next(c for c in cases if c["id"] == "led/noup/nopio/ok/none")
    tk = record(kc, common.subdir("c12s") / "case3")
    m3 = copy.deepcopy(tk); m3["id"] = "known-but-other-class"; m3["ev"][-1].update(s="OSError", mro=["OSError", "Exception"])
    ctrl += [(m3, len(tk["ev"]), "PioOnlyIfUpload")]
    v = validate("TargetTrace", "TargetTrace.cfg", [t, tb, tk] + [c[0] for c in ctrl])
    bad = 0
    for base in (t, tb):
        print("original", base["id"], v[base["id"]])
        bad += not v[base["id"]]["ok"]
    print("known-probe", tk["id"], v[tk["id"]])
    for m, at, clause in ctrl:
        r = v[m["id"]]
        good = (not r["ok"]) and r["l"] == at and r["clause"].startswith(clause)
        print(("ok  " if good else "FAIL"), m["id"], "-> rejected at", r["l"], r["clause"], f"(expected {at} {clause})")
        bad += not good
    return 1 if bad else 0
