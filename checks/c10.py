"""C10 - transpilation is a deterministic, stateless function of the source text.

Decided by: tla/Session.tla - processes with a hash seed and a history, a global `known[script]` digest, and the
guard "a digest may be reported for a script only if it is the one already known for it".  (1) TLC model-checks
the specification (one digest per script over all processes, seeds and histories; known never changes).
(2) TLC enumerates session schedules: for every group of three corpus scripts and every seed, every sequence of
at most four emit(parse(s)) calls, and every complete sequence of separate parse()/emit() calls (parse of one
script interleaved with emit of another).  (3) Each selected schedule is executed in a fresh interpreter with
that PYTHONHASHSEED against /repo's working tree; the events (pid, seq, script, sha256 of the C++ text, the
canonical digests, module-state snapshot equality) are validated by TLC (tla/SessionTrace.tla)."""
from __future__ import annotations

import copy
import json
import random
import re

from pathlib import Path

from harness import session_rec as S
from harness.common import REPO_SRC, MachineryError
from harness.tlc import run_tlc
from harness.tracecheck import validate

LEVEL = "model_checking"
FINDING = "promotion-order-hash-seed"
_RE_COV = re.compile(r"^<(Do\w+) line [^>]*>: (\d+):(\d+)", re.M)


# ----------------------------------------------------------------------------------------------------------------
def model_check(run, maxops: int) -> None:
    cfg = (Path(__file__).resolve().parent.parent / "tla" / "SessionMC.cfg").read_text().replace("MaxOps = 2", f"MaxOps = {maxops}")
    res = run_tlc("SessionMC", cfg, workers=8, timeout=600, coverage=True)
    if not res.ok:
        raise MachineryError(f"SessionMC: spec-level check failed: {res.error} {res.violated}\n{res.stdout[-2000:]}")
    cov = {m.group(1): int(m.group(3)) for m in _RE_COV.finditer(res.stdout)}
    missing = [a for a in ("DoSpawn", "DoParse", "DoEmit", "DoTranspile") if not cov.get(a)]
    if missing:
        raise MachineryError(f"SessionMC: actions never taken (vacuous model): {missing}")
    run.add_tlc(res, f"SessionMC exhaustive model check (2 procs x 2 scripts x 2 seeds x 2 digests, <= {maxops} calls per process): "
                     "TypeOK, OneDigestPerScript, KnownIsWhatWasSeen, DeadHoldNothing, KnownStable, SeedFixedWhileAlive; "
                     f"action coverage {cov}")


def groups_of(cs: list[dict], rng: random.Random, extra: int) -> list[list[str]]:
    """3-subsets of the corpus: a partition (twins with their originals, probes together) + `extra` random subsets."""
    by = {e["id"]: e for e in cs}
    probes = [e["id"] for e in cs if e["id"] in S.PROBES]
    twins = [e["id"] for e in cs if e["twin_of"]]
    plain = [e["id"] for e in cs if e["id"] not in S.PROBES and e["id"] not in S.FEATURES and not e["twin_of"] and e["id"] not in {by[t]["twin_of"] for t in twins}]
    rng.shuffle(plain)
    groups = []
    for t in twins:
        groups.append([by[t]["twin_of"], t, plain.pop()] if plain else [by[t]["twin_of"], t, probes[0]])
    while len(plain) >= 3:
        groups.append([plain.pop(), plain.pop(), plain.pop()])
    if plain:
        groups.append((plain + [by[twins[0]]["twin_of"], twins[0]])[:3] if twins else plain)
    for i in range(0, len(probes), 3):
        groups.append(probes[i:i + 3])
    groups += [list(g) for g in S.FEATURE_GROUPS]
    ids = [e["id"] for e in cs]
    for _ in range(extra):
        groups.append(rng.sample(ids, 3))
    return [g for g in groups if len(g) == 3]


def _set(xs) -> str:
    return "{" + ", ".join(json.dumps(x) if isinstance(x, str) else str(x) for x in xs) + "}"


def generate(groups: list[list[str]], seeds: list[int], mode: str, maxlen: int, run) -> list[dict]:
    ids = sorted({s for g in groups for s in g})
    cfg = ("INIT GInit\nNEXT GNext\nCONSTANTS\n  Procs = {\"g\"}\n"
           f"  Scripts = {_set(ids)}\n  Seeds = {_set(seeds)}\n  Digests = {{\"x\"}}\n  MaxOps = 99\n  Guarded = TRUE\n"
           f"  Subsets = {{{', '.join(_set(g) for g in groups)}}}\n  Mode = \"{mode}\"\n  MaxLen = {maxlen}\n"
           "CONSTRAINT Emit_\nVIEW View\nCHECK_DEADLOCK FALSE\n")
    res = run_tlc("SessionGen", cfg, workers=1, timeout=900, heap="6g")
    if not res.ok or not res.json:
        raise MachineryError(f"SessionGen ({mode}): generation failed: {res.error}\n{res.stdout[-2000:]}")
    run.add_tlc(res, f"SessionGen {mode}: every schedule of <= {maxlen} calls over {len(groups)} groups x {len(seeds)} seeds")
    seen, out = set(), []
    for b in res.json:
        k = json.dumps(b, sort_keys=True)
        if k not in seen:
            seen.add(k)
            b["sub"] = sorted(b["sub"])
            out.append(b)
    return out


def select(groups, seeds, atomic, split, quick: bool, rng: random.Random) -> list[dict]:
    """Jobs = the schedules that are executed.  Always: for every group and every `cover` seed the three rotations
    a,b,c,a (every script first and after a history under every such seed); plus a seeded sample of the rest."""
    jobs = []
    key = lambda b: (tuple(b["sub"]), b["seed"])
    by_a, by_s = {}, {}
    for b in atomic:
        by_a.setdefault(key(b), []).append(b)
    for b in split:
        by_s.setdefault(tuple(b["sub"]), []).append(b)
    cover = seeds[:4] if quick else seeds
    for gi, g in enumerate(groups):
        sub = tuple(sorted(g))
        n = 0

        def add(kind, seed, plan=None, threads=None):
            nonlocal n
            n += 1
            jobs.append({"pid": f"G{gi:02d}-{n:03d}", "group": gi, "kind": kind, "seed": seed, "plan": plan, "threads": threads})

        for sd in cover:
            for r in range(3):
                rot = [g[(r + k) % 3] for k in range(4)]
                add("atomic", sd, [["t", s] for s in rot])
        # a Program that is kept and emitted again and again, with other scripts transpiled in between
        for k, sd in enumerate(cover[:2]):
            u = list(dict.fromkeys(g))
            s0, s1, s2 = u[k % len(u)], u[(k + 1) % len(u)], u[(k + 2) % len(u)]
            plan = [["p", s0], ["E", s0], ["t", s1], ["E", s0]]
            plan += ([["p", s2], ["E", s2], ["E", s0], ["e", s2]] if s2 != s0 else [["E", s0]]) + [["e", s0]]
            add("reemit", sd, plan)
        pool = [b for sd in seeds for b in by_a.get((sub, sd), []) if len(b["h"]) >= 2]
        for b in rng.sample(pool, min(len(pool), 8 if quick else 100)):
            add("atomic", b["seed"], [["t", s] for _k, s in b["h"]])
        pool = [b for b in by_s.get(sub, []) if any(b["h"][i][0] == "parse" and b["h"][i + 1][0] == "parse" for i in range(len(b["h"]) - 1))]
        for b in rng.sample(pool, min(len(pool), 3 if quick else 20)):
            add("split", b["seed"], [["p" if k == "parse" else "e", s] for k, s in b["h"]])
        if quick and any(x.startswith("thr-") for x in g):
            # the quick tier runs the two-thread schedules for the group that was written for them
            for k in range(6):
                sd = seeds[k % len(seeds)]
                add("threads", sd, None, [[["t", g[(k + j) % 2]] for j in range(6)], [["t", g[(k + j + 1) % 2]] for j in range(6)]])
        if not quick:
            for k in range(6):
                sd = seeds[(gi + k) % len(seeds)]
                a = [["t", g[(k + j) % 3]] for j in range(4)]
                b2 = [["t", g[(k + 2 * j + 1) % 3]] for j in range(4)]
                add("threads", sd, None, [a, b2])
    return jobs


def ref_job(cs: list[dict]) -> dict:
    return {"pid": "ref", "group": -1, "kind": "ref", "seed": 0, "plan": [["t", e["id"]] for e in cs], "threads": None}


def make_traces(cs, groups, jobs, events, ref_events) -> list[dict]:
    by = {e["id"]: e for e in cs}
    traces = []
    for gi, g in enumerate(groups):
        gs = set(g)
        ev = []
        keep = False
        for e in ref_events:   # projection of the reference process onto this group's scripts
            if e["e"] in ("spawn", "exit"):
                ev.append(e)
            elif e["e"] == "transpile":
                keep = e["s"] in gs
                if keep:
                    ev.append(e)
            elif e["e"] == "snap" and keep:
                ev.append(e)
        procs = ["ref"]
        for j, evs in zip(jobs, events):
            if j["group"] == gi:
                procs.append(j["pid"])
                ev += evs
        traces.append({"id": f"G{gi:02d}", "procs": procs, "scripts": sorted(gs), "trigger": {s: by[s]["trigger"] for s in gs},
                       "ev": [_slim(e) for e in ev]})
    return traces


def _slim(e: dict) -> dict:
    return {k: v for k, v in e.items() if k in ("e", "p", "s", "seed", "d", "m", "c", "same", "thr", "keep")}


def run_and_validate(cs, groups, jobs, run=None, workers: int = 8):
    by = {e["id"]: e for e in cs}
    allj = [ref_job(cs)] + jobs
    events = S.run_many(allj, by, workers=workers)
    ref_events, events = events[0], events[1:]
    f = ref_events[0].get("file", "")
    if not f.startswith(str(REPO_SRC)):
        raise MachineryError(f"child imported Reduino from {f}, expected {REPO_SRC}")
    acc = [e for e in ref_events if e["e"] == "transpile" and e["s"] not in S.EXPECT_REJECT]
    late = [e["s"] for e in ref_events if e["e"] == "transpile" and e["s"] in S.EXPECT_REJECT and e["acc"]]
    if late:
        raise MachineryError(f"corpus scripts meant to be rejected late are accepted: {late}")
    if sum(1 for e in acc if e["acc"]) < 0.9 * len(acc):
        bad = [(e["s"], e.get("out")) for e in acc if not e["acc"]][:3]
        raise MachineryError(f"corpus is not meaningful: fewer than 90% of the scripts are accepted, e.g. {bad}")
    traces = make_traces(cs, groups, jobs, events, ref_events)
    verdicts = validate("SessionTrace", "SessionTrace.cfg", traces, run, label="session groups", workers=8)
    return traces, verdicts, events, ref_events


def report(run, cs, groups, jobs, traces, verdicts) -> None:
    by = {e["id"]: e for e in cs}
    for t in traces:
        v = verdicts[t["id"]]
        gi = int(t["id"][1:])
        if FINDING in (v.get("known") or []):
            trig = [s for s in t["scripts"] if by[s]["trigger"] >= 2]
            run.violation(f"C++ text differs between hash seeds only in the order of hoisted declarations (scripts {trig[:3]}, "
                          f"e.g. names {by[trig[0]]['hoisted'][:4]})", {}, finding=FINDING)
        if not v["ok"]:
            e = t["ev"][v["l"] - 1] if 0 < v["l"] <= len(t["ev"]) else {}
            run.violation(f"group {t['id']} {t['scripts']}: session leaves the specification at event {v['l']} ({v['clause']}): {json.dumps(e)[:240]}",
                          {"group": groups[gi], "scripts": {s: by[s] for s in t["scripts"]}, "jobs": [j for j in jobs if j["group"] == gi],
                           "verdict": v, "event": e})


def check(run) -> None:
    quick = run.tier == "quick"
    rng = random.Random(f"c10-{run.seed}")
    run.cov["rule"] = ("a case = one report (script, hash seed, history of earlier parse()/emit() calls in that process, plan kind); "
                       "distinct = distinct (script, seed, history); non-trivial = the script is accepted and has names first assigned "
                       "in if/try/for/while bodies (every generated corpus script does)")
    run.assumptions += ["one machine, one CPython build: 'platforms' set/dict ordering' is exercised through PYTHONHASHSEED only",
                        "the reference process's history is projected onto the scripts of each group in that group's trace",
                        "module-level state = scalars and containers bound in Reduino.transpile.{parser,emitter,ast}, class attributes, "
                        "mutable defaults, lru_cache fill (harness/modstate.py); bindings named _verif* (the log of the REDUINO_VERIF hook) are left out",
                        "trigger of the known finding is computed from the script's syntax with CPython's ast (harness/session_rec.promotion_groups)"]
    model_check(run, 2 if quick else 3)
    cs = S.corpus(run.seed)
    seeds = ([0, 1, 2, 3] if quick else list(range(8))) + sorted(rng.sample(range(4, 2_000_000_000), 4 if quick else 8))
    groups = groups_of(cs, rng, 0 if quick else 12)
    atomic = generate(groups, seeds, "atomic", 4, run)
    split = generate(groups, seeds, "split", 4 if quick else 6, run)
    jobs = select(groups, seeds, atomic, split, quick, rng)
    traces, verdicts, events, ref_events = run_and_validate(cs, groups, jobs, run, workers=12)
    hist: dict = {}
    for j, evs in zip([ref_job(cs)] + jobs, [ref_events] + events):
        h = []
        for e in evs:
            if e["e"] in ("emit", "transpile"):
                run.count((e["s"], j["seed"], tuple(h)))
            if e["e"] in ("parse", "emit", "transpile"):
                h.append((e["e"], e["s"]))
    run.cov.update({"corpus_scripts": len(cs), "corpus_with_trigger": sum(1 for e in cs if e["trigger"] >= 2), "groups": len(groups),
                    "seeds": seeds, "schedules_enumerated": {"atomic": len(atomic), "split": len(split)},
                    "processes": {k: sum(1 for j in jobs if j["kind"] == k) for k in ("atomic", "split", "threads")},
                    "events_validated": sum(len(t["ev"]) for t in traces)})
    run.sample({"script": cs[0]["id"], "first_lines": cs[0]["src"].splitlines()[14:22], "promotion_groups": cs[0]["groups"][:3]})
    run.sample({"job": jobs[0], "events": events[0][:4]})
    report(run, cs, groups, jobs, traces, verdicts)


# ----------------------------------------------------------------------------------------------------------------
def replay(path: str) -> int:
    r = json.load(open(path))
    cs = list(r["scripts"].values())
    groups = [r["group"]]
    jobs = [dict(j, group=0) for j in r["jobs"]]
    traces, verdicts, _e, _r = run_and_validate(cs, groups, jobs)
    v = verdicts[traces[0]["id"]]
    print(json.dumps(v))
    if not v["ok"]:
        print(f"VIOLATION property=C10 replay={path}")
        return 1
    return 0


def selftest(seed: int) -> int:
    """Negative controls: a corrupted digest, a dropped parse event, a mutated-module-state flag, a permuted line
    outside the hoisted declarations and an unguarded specification must each be rejected, by name."""
    bad = 0
    cs = S.corpus(seed)
    by = {e["id"]: e for e in cs}
    g = ["g30", "g31", "probe-if2"]          # two clean scripts and one that meets the known trigger
    jobs = [{"pid": "G00-001", "group": 0, "kind": "atomic", "seed": 1, "plan": [["t", g[0]], ["t", g[1]], ["t", g[2]]], "threads": None},
            {"pid": "G00-002", "group": 0, "kind": "split", "seed": 2, "plan": [["p", g[0]], ["p", g[2]], ["e", g[0]], ["e", g[2]]], "threads": None},
            {"pid": "G00-003", "group": 0, "kind": "atomic", "seed": 1, "plan": [["t", g[2]], ["t", g[0]]], "threads": None}]
    sub = [e for e in cs if e["id"] in g]
    traces, verdicts, _e, _r = run_and_validate(sub, [g], jobs)
    t = traces[0]
    print("original:", verdicts[t["id"]])
    if not verdicts[t["id"]]["ok"]:
        bad += 1

    def variant(name, fn):
        c = copy.deepcopy(t)
        c["id"] = name
        fn(c["ev"])
        return c

    def idx(ev, pred, k=0):
        return [i for i, e in enumerate(ev) if pred(e)][k]

    def corrupt_digest(ev):
        i = idx(ev, lambda e: e["e"] == "transpile" and e["p"] == "G00-001" and e["s"] == g[0])
        ev[i]["d"] = "0" * 20

    def same_seed_history(ev):   # second process with seed 1 reports another digest for the clean script
        i = idx(ev, lambda e: e["e"] == "transpile" and e["p"] == "G00-003" and e["s"] == g[0])
        ev[i]["d"] = "1" * 20

    def drop_parse(ev):
        del ev[idx(ev, lambda e: e["e"] == "parse" and e["s"] == g[2])]

    def mutate_state(ev):
        ev[idx(ev, lambda e: e["e"] == "snap" and e["p"] == "G00-002")]["same"] = False

    def other_line_moved(ev):    # the known deviation with a different canonical text: must NOT be excused
        i = idx(ev, lambda e: e["e"] in ("emit", "transpile") and e["s"] == g[2] and e["p"] != "ref")
        ev[i]["d"] = "2" * 20
        ev[i]["c"] = "3" * 20

    def excused(ev):             # exact match of the known deviation: accepted, finding recorded
        i = idx(ev, lambda e: e["e"] in ("emit", "transpile") and e["s"] == g[2] and e["p"] == "G00-002")
        ev[i]["d"] = "4" * 20

    expect = {"corrupt-digest": "digest-differs-across-seeds", "same-seed": "digest-depends-on-history", "drop-parse": "emit-without-parse",
              "mutated": "module-state-mutated", "moved-line": "digest-differs-across-seeds", "excused": ""}
    vs = [variant("corrupt-digest", corrupt_digest), variant("same-seed", same_seed_history), variant("drop-parse", drop_parse),
          variant("mutated", mutate_state), variant("moved-line", other_line_moved), variant("excused", excused)]
    res = validate("SessionTrace", "SessionTrace.cfg", vs)
    for name, cl in expect.items():
        v = res[name]
        good = (v["clause"] == cl) and (v["ok"] == (cl == "")) and (name != "excused" or FINDING in v["known"])
        print(name, "->", v, "OK" if good else "UNEXPECTED")
        bad += 0 if good else 1
    cfg = (Path(__file__).resolve().parent.parent / "tla" / "SessionMC.cfg").read_text().replace("Guarded = TRUE", "Guarded = FALSE")
    r = run_tlc("SessionMC", cfg, workers=8, timeout=300)
    print("unguarded spec:", r.error, r.violated)
    if not (r.error == "invariant" and r.violated == "OneDigestPerScript"):
        bad += 1
    return 1 if bad else 0
