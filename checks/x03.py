"""X03 (extension, not one of the listed properties) - the laws of three reference specifications lifted from TLC's grids to every
integer, by induction, with Apalache.  tla/apalache/MC_ServoInd.tla, MC_UltrasonicInd.tla and MC_ButtonInd.tla INSTANCE the very modules that the
trace specifications of C04 / C15 / C19 / C20 use (tla/Servo.tla, tla/Ultrasonic.tla, tla/Button.tla carry @type comments for this), let
the call argument / gap / echo time / clock start / number of passes range over all integers (the calibration too, in SymInv) and discharge
   base:  Init => IndInv              (--length=0)
   step:  IndInv /\\ Next => IndInv'    (--length=1 from an arbitrary state that satisfies IndInv)
Each proof obligation is paired with a negative control that Apalache must refute (a law that is too strong), so a run in which
the solver proves everything vacuously is recognised.  This check decides nothing about /repo by itself: the binding of these
specifications to the code is C04 / C19 (Servo) and C15 / C20 (Ultrasonic, Button); what it adds is that the laws those checks hold
the code to are laws of the reference for every value, not only for the enumerated ones."""
from __future__ import annotations

import re
import shutil
import subprocess
import time

from harness.common import MachineryError, TLA, subdir

LEVEL = "model_checking"

# (module, init, next, inv, length, expected outcome, what it is)
OBLIGATIONS = [
    ("MC_ServoInd", "Init", None, "IndInv", 0, True, "Servo base case (five calibrations)"),
    ("MC_ServoInd", "IndStart", "NextAny", "IndInv", 1, True, "Servo step: every integer argument, five calibrations"),
    ("MC_ServoInd", "SymStart", "NextAny", "SymInv", 1, True, "Servo step: every integer argument, every calibration with whole-unit spans"),
    ("MC_ServoInd", "ExactStart", "NextAny", "Exact", 1, False, "negative control: exact angle/pulse correspondence is not preserved"),
    ("MC_ServoInd", "SymExactStart", "NextAny", "Exact", 1, False, "negative control (symbolic calibration)"),
    ("MC_UltrasonicInd", "InitAny", None, "IndInvR", 0, True, "Ultrasonic base case (every clock start)"),
    ("MC_UltrasonicInd", "IndStartR", "NextAny", "IndInvR", 1, True, "Ultrasonic step: every gap, every echo time 0..30000 us"),
    ("MC_UltrasonicInd", "Spacing61Start", "NextAny", "Spacing61", 1, False, "negative control: a spacing of 61 ms is not preserved"),
    ("MC_ButtonInd", "Init", None, "IndInv", 0, True, "Button base case"),
    ("MC_ButtonInd", "IndStart", "NextAny", "IndInv", 1, True, "Button step: any number of passes, host agreement when the signal starts released"),
    ("MC_ButtonInd", "AgreeAlwaysStart", "NextAny", "AgreeAlways", 1, False, "negative control: host agreement without its premise is not preserved"),
]


def _workdir():
    d = subdir("apalache")
    for f in ("Servo.tla", "Ultrasonic.tla", "Button.tla"):
        shutil.copy(TLA / f, d / f)
    for f in (TLA / "apalache").glob("*.tla"):
        shutil.copy(f, d / f.name)
    return d


def _run(d, mod, init, nxt, inv, length, timeout=900):
    cmd = ["apalache-mc", "check", f"--init={init}", f"--inv={inv}", f"--length={length}", f"--out-dir={d / 'out'}"]
    if nxt:
        cmd.append(f"--next={nxt}")
    cmd.append(f"{mod}.tla")
    t0 = time.time()
    try:
        p = subprocess.run(cmd, cwd=d, capture_output=True, text=True, timeout=timeout)
    except subprocess.TimeoutExpired:
        raise MachineryError(f"apalache timed out after {timeout}s on {mod} {init}/{inv}")
    out = p.stdout + p.stderr
    m = re.search(r"The outcome is: (\w+)", out)
    if not m or m.group(1) not in ("NoError", "Error"):
        raise MachineryError(f"apalache gave no verdict on {mod} {init}/{inv}:\n{out[-1500:]}")
    where = re.search(r"State (\d+): state invariant \d+ violated", out)
    return m.group(1) == "NoError", (int(where.group(1)) if where else None), round(time.time() - t0, 2), out


def check(run) -> None:
    run.cov["rule"] = ("a case = one proof obligation (base or inductive step of one reference specification) or one negative control, "
                       "decided by Apalache over unbounded integers")
    run.assumptions += ["the obligations are about the reference specifications only; tla/Servo.tla, tla/Ultrasonic.tla and tla/Button.tla are bound to /repo by C04, C15, C19, C20",
                        "SymInv: calibrations with whole-unit spans, angles within -360..3600 degrees, pulses within 0..5000 us",
                        "Ultrasonic history sequences are bounded by the law itself (at most three echoes per call: Gen(3))"]
    d = _workdir()
    for mod, init, nxt, inv, length, want, what in OBLIGATIONS:
        ok, state, wall, out = _run(d, mod, init, nxt, inv, length)
        run.count(f"{mod}:{init}:{inv}")
        run.cov.setdefault("apalache_runs", []).append({"what": what, "module": mod, "init": init, "inv": inv, "length": length,
                                                        "outcome": "NoError" if ok else "Error", "violated_in_state": state, "wall_s": wall})
        if want and not ok:
            run.violation(f"{what}: the invariant {inv} is not inductive / does not hold (violated in state {state})",
                          {"module": mod, "init": init, "next": nxt, "inv": inv, "length": length, "tail": out[-1200:]})
        elif not want and (ok or state != 1):
            # a refutation in state 0 would mean the control's start state is empty or ill-formed: the control must fail in the step
            raise MachineryError(f"{what}: expected a refutation in state 1, got {'NoError' if ok else f'state {state}'}")


def replay(path: str) -> int:
    import json
    r = json.load(open(path))
    ok, state, wall, out = _run(_workdir(), r["module"], r["init"], r.get("next"), r["inv"], r["length"])
    print(json.dumps({"outcome": "NoError" if ok else "Error", "state": state, "wall_s": wall}))
    if not ok:
        print(f"VIOLATION property=X03 replay={path}")
        return 1
    return 0


def selftest(seed: int) -> int:
    """The negative controls are part of every run (check() exits 2 if one of them is not refuted in the step)."""
    d = _workdir()
    bad = 0
    for mod, init, nxt, inv, length, want, what in OBLIGATIONS:
        if not want:
            ok, state, wall, _ = _run(d, mod, init, nxt, inv, length)
            print(what, "->", "refuted in state %s" % state if not ok else "NOT refuted")
            bad += ok or state != 1
    return 1 if bad else 0
