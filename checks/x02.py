"""X02 (extension, not one of the listed properties) - the serial line between the host-side SerialMonitor and the firmware's
Serial delivers what is written: once, in order, unchanged.  tla/SerialLink.tla states the four operations (host write / read,
device write / read) on two byte queues and the delivery laws with their premises (SerialLinkMC: every interleaving of up to
MaxOps operations, both host newline settings, texts over an alphabet that contains CR and LF); SerialLinkGen enumerates
operation sequences over texts that matter to the implementations; each one is executed by the REAL host class (on a fake
pyserial port) and the REAL emitted firmware (on the mock core with scripted serial input) and the recorded history is validated
by TLC (SerialLinkTrace)."""
from __future__ import annotations

import concurrent.futures as cf
import json
import random

from harness import fw, seriallink
from harness.common import MachineryError, NCPU
from harness.tlc import run_tlc
from harness.tracecheck import validate

LEVEL = "model_checking"


def _behaviours(run, maxlen: int) -> list:
    gen = run_tlc("SerialLinkGen", "INIT GInit\nNEXT GNext\nCONSTANT MaxLen = %d\nCONSTRAINT Emit\nCHECK_DEADLOCK FALSE\n" % maxlen, workers=4, timeout=1200)
    bs = [o for o in gen.json if isinstance(o, dict) and "ops" in o]
    if not gen.ok or not bs:
        raise MachineryError(f"SerialLinkGen: {gen.error}\n{gen.stdout[-800:]}")
    for b in bs:                              # an empty text prints as [] / "" in JSON
        b["nl"] = list(b["nl"])
        for o in b["ops"]:
            o["t"] = list(o["t"]) if not isinstance(o["t"], str) else []
    bs.sort(key=lambda b: json.dumps(b, sort_keys=True))
    if run is not None:
        run.add_tlc(gen, f"SerialLinkGen: operation sequences up to {maxlen}")
    return bs


def check(run) -> None:
    quick = run.tier == "quick"
    run.cov["rule"] = ("a case = one TLC-generated operation sequence (host newline x host write / device write / device read / host read over "
                       "byte texts) executed by the real host class and the real firmware; distinct = distinct sequence")
    run.assumptions += ["Serial.println(x) sends x followed by CR LF; pyserial readline returns the bytes up to and including the first LF or, on time-out, what has arrived",
                        "the device's reads see exactly the bytes the host had written before them (no partial lines in flight)"]
    mc = run_tlc("SerialLinkMC", "SPECIFICATION Spec\nCONSTANT MaxOps = %d\nINVARIANT InvH2D\nINVARIANT InvH2DCR\nINVARIANT InvD2H\nINVARIANT InvNoInvention\nCHECK_DEADLOCK FALSE\n"
                 % (3 if quick else 4), workers=8, timeout=1500, coverage=True).need_ok()
    run.add_tlc(mc, "SerialLinkMC: delivery laws over every interleaving (both newline settings, texts over {a, b, CR, LF} up to 2 bytes)")
    bs = _behaviours(run, 2 if quick else 3)
    if not quick and len(bs) > 5000:
        short = [b for b in bs if len(b["ops"]) <= 2]
        bs = short + random.Random(run.seed).sample([b for b in bs if len(b["ops"]) > 2], 5000 - len(short))
    # plus longer random walks over the same operations (reads interleaved with several writes)
    rnd = random.Random(run.seed)
    texts = sorted({json.dumps(o["t"]) for b in bs for o in b["ops"] if o["op"] in ("hw", "dw")})
    for _ in range(60 if quick else 600):
        ops = []
        for _ in range(rnd.randint(4, 9)):
            k = rnd.choice(["hw", "hw", "dw", "dw", "dr", "hr"])
            ops.append({"op": k, "t": json.loads(rnd.choice(texts)) if k in ("hw", "dw") else []})
        bs.append({"nl": rnd.choice([[10], [13, 10]]), "ops": ops})
    fw.ensure_runtime(False)
    with cf.ProcessPoolExecutor(max_workers=NCPU) as ex:
        outs = list(ex.map(seriallink.run_behaviour, bs, chunksize=4))
    traces, meta = [], {}
    for n, (b, o) in enumerate(zip(bs, outs)):
        run.count(json.dumps(b, sort_keys=True))
        if o["transpile"] != "accept" or o.get("compile") != "ok":
            run.violation(f"link script is not accepted or does not compile ({o['transpile']} {o.get('msg') or ''} {o.get('stderr') or ''})"[:400],
                          {"behaviour": b, "script": o["src"]})
            continue
        if o.get("ev") is None:
            run.violation(f"device run lacks lines or reads: {o.get('why')}", {"behaviour": b, "script": o["src"]})
            continue
        tid = f"x02-{n}"
        traces.append({"id": tid, "nl": b["nl"], "ev": o["ev"]})
        meta[tid] = (b, o)
    verdicts = validate("SerialLinkTrace", "SerialLinkTrace.cfg", traces, run, label="link histories")
    if traces:
        run.sample({"behaviour": meta[traces[0]["id"]][0], "events": traces[0]["ev"][:4]})
    for tid, v in verdicts.items():
        if not v["ok"]:
            b, o = meta[tid]
            t = next(x for x in traces if x["id"] == tid)
            run.violation(f"link history leaves the specification at operation {v['l']} ({v['clause']}): {json.dumps(t['ev'][v['l'] - 1])[:240]}",
                          {"behaviour": b, "verdict": v, "script": o["src"], "inputs": o["inputs"], "events": t["ev"]})


def replay(path: str) -> int:
    r = json.load(open(path))
    o = seriallink.run_behaviour(r["behaviour"])
    if o.get("ev") is None:
        print(f"VIOLATION property=X02 replay={path}")
        return 1
    v = validate("SerialLinkTrace", "SerialLinkTrace.cfg", [{"id": "replay", "nl": r["behaviour"]["nl"], "ev": o["ev"]}])["replay"]
    print(json.dumps(v))
    if not v["ok"]:
        print(f"VIOLATION property=X02 replay={path}")
        return 1
    return 0


def selftest(seed: int) -> int:
    """Negative controls: a corrupted payload / read result is rejected at that operation; a law without its premise fails in TLC."""
    b = {"nl": [10], "ops": [{"op": "hw", "t": [97]}, {"op": "dw", "t": [98]}, {"op": "dr", "t": []}, {"op": "hr", "t": []}]}
    ev = seriallink.run_behaviour(b)["ev"]
    bad1 = json.loads(json.dumps(ev)); bad1[0]["p"] = [97, 13, 10]
    bad2 = json.loads(json.dumps(ev)); bad2[2]["p"] = [97, 10]
    bad3 = json.loads(json.dumps(ev)); bad3[3]["p"] = [98, 13]
    v = validate("SerialLinkTrace", "SerialLinkTrace.cfg", [{"id": "ok", "nl": [10], "ev": ev}, {"id": "b1", "nl": [10], "ev": bad1},
                                                            {"id": "b2", "nl": [10], "ev": bad2}, {"id": "b3", "nl": [10], "ev": bad3}])
    print(json.dumps(v))
    ok = v["ok"]["ok"] and (not v["b1"]["ok"] and v["b1"]["l"] == 1) and (not v["b2"]["ok"] and v["b2"]["l"] == 3) and (not v["b3"]["ok"] and v["b3"]["l"] == 4)
    # the premise of the device->host law is needed: without it TLC finds a counterexample
    neg = run_tlc("SerialLinkMC", "SPECIFICATION Spec\nCONSTANT MaxOps = 3\nINVARIANT NegD2H\nCHECK_DEADLOCK FALSE\n", workers=4, timeout=600)
    print("law without premise violated:", neg.violated)
    return 0 if ok and neg.violated else 1
