"""C14 - library deps, #includes and instantiated library classes always agree.

Decided by:
 (1) TLC model-checks `Libs` (every clause of the property on every state of the promised transpiler; the verdict
     function ObsDiff judged against the declarative clauses on a bounded universe of arbitrary observations) and
     `Sketch` (operational item/close obligations == declarative well-formedness over ALL item sequences to a bound).
 (2) TLC (LibsGen) enumerates device multisets exhaustively: servos 0..2 split over the two placements x parallel
     LCDs 0..2 x I2C LCDs 0..2 x subsets of the eight other kinds x script shape (uses in the loop / in a helper
     function / no main loop).  quick: 10 subsets (none, each kind alone, all), both constructor spellings/orders;
     thorough: all 256 subsets.
 (3) every multiset is rendered as a script and the REAL parse, emit and Reduino._collect_required_libraries of the
     working tree are run on it; lib_deps, the #include lines, the library objects and the whole top-level item
     sequence of the emitted text are validated by TLC against LibsTrace / SketchTrace (total verdicts naming
     the failing clause).
 (4) thorough: the emitted sketches of the 10-subset grid (every library multiset x shape with none/all of the other
     kinds, each other kind alone in shape `loop`) are compiled and linked with g++ against /verif/mock, setup() executed; a failure about a missing/duplicate library header, class or object is a C14 violation, any
     other compile failure is counted as "belongs to C06".
 (5) probe stratum for the known finding lib-device-in-compound-statement (only while it is listed)."""
from __future__ import annotations

import copy
import json

from harness import libs_rec as L
from harness.common import MachineryError
from harness.tlc import run_tlc
from harness.tracecheck import validate

LEVEL = "model_checking"
KNOWN_NESTED = "lib-device-in-compound-statement"

LIBS_INVARIANTS = ["TypeOK", "RequestedIffNeeded", "IncludedIffNeeded", "InstantiatedIffNeeded", "RequestedIffIncluded",
                   "IncludedIffInstantiated", "WireWithI2C", "NoDuplicateRequest", "NoDuplicateInclude", "NothingNeedless",
                   "OneObjectPerDevice", "IdealAccepted", "OtherKindsNeedNothing", "VerdictSound", "KnownNeverOnIdeal",
                   "PlacementIrrelevant"]
SKETCH_INVARIANTS = ["StepMatchesDeclarative", "CloseMatchesDeclarative", "LegalKeepsInvariants"]
TRACE_CONSTS = "CONSTANTS\n  DeclKinds = {}\n  MaxDevs = 0\n"


# ---------------------------------------------------------------------------------------------------------
# TLC legs
# ---------------------------------------------------------------------------------------------------------
def model_check(run, quick: bool) -> None:
    bounds = [(2, 2, 2, 2)] if quick else [(3, 2, 2, 2), (2, 2, 3, 2)]
    for maxdevs, ul, ui, us in bounds:
        cfg = ("SPECIFICATION Spec\nCONSTANTS\n  DeclKinds <- MCKindsDef\n"
               f"  MaxDevs = {maxdevs}\n  ULibsLen = {ul}\n  UInclLen = {ui}\n  UInstLen = {us}\n"
               + "".join(f"INVARIANT {i}\n" for i in LIBS_INVARIANTS) + "CHECK_DEADLOCK FALSE\n")
        res = run_tlc("LibsMC", cfg, workers=8, timeout=1200)
        if not res.ok:
            raise MachineryError(f"LibsMC: spec-level check failed: {res.error} {res.violated}\n{res.stdout[-2500:]}")
        if res.distinct < 10:
            raise MachineryError("LibsMC: vacuous model (no declarations explored)")
        nlib, ninc, nins = sum(4 ** k for k in range(ul + 1)), sum(4 ** k for k in range(ui + 1)), sum(3 ** k for k in range(us + 1))
        run.add_tlc(res, f"LibsMC exhaustive: declaration sequences <= {maxdevs} over 4 kinds x 3 places, {len(LIBS_INVARIANTS)} invariants; "
                         f"verdict function judged on {nlib * ninc * nins} arbitrary observations in every finished state")
    alpha, maxlen = ("AlphabetQ", 5) if quick else ("AlphabetDef", 6)
    cfg = (f"SPECIFICATION ASpec\nCONSTANTS\n  Alphabet <- {alpha}\n  MaxLen = {maxlen}\n"
           + "".join(f"INVARIANT {i}\n" for i in SKETCH_INVARIANTS) + "CHECK_DEADLOCK FALSE\n")
    res = run_tlc("SketchMC", cfg, workers=8, timeout=1200, coverage=quick)
    if not res.ok:
        raise MachineryError(f"SketchMC: spec-level check failed: {res.error} {res.violated}\n{res.stdout[-2500:]}")
    if res.coverage and any(res.coverage.get(a, (1, 1))[1] == 0 for a in ("Feed", "TryClose")):
        raise MachineryError("SketchMC: action never taken (vacuous model)")
    run.add_tlc(res, f"SketchMC exhaustive: all item sequences <= {maxlen} over {alpha}, operational verdict == declarative well-formedness")


def generate(plans: str, shapes: str, alts: str, run=None, label: str = "") -> list[dict]:
    cfg = ("INIT GInit\nNEXT GNext\nCONSTANTS\n  DeclKinds = {}\n  MaxDevs = 0\n"
           f"  Plans <- {plans}\n  Shapes <- {shapes}\n  Alts = {alts}\n"
           "CONSTRAINT Emit\nINVARIANT IdealAccepted\nCHECK_DEADLOCK FALSE\n")
    res = run_tlc("LibsGen", cfg, workers=8, timeout=1500)
    if not res.ok:
        raise MachineryError(f"LibsGen: generation failed: {res.error} {res.violated}\n{res.stdout[-2000:]}")
    stims = [s for s in res.json if isinstance(s, dict) and "decls" in s and "shape" in s]
    if not stims:
        raise MachineryError(f"LibsGen: no stimuli generated\n{res.stdout[-1500:]}")
    keys = {json.dumps([s["decls"], s["shape"], s["alt"]], sort_keys=True) for s in stims}
    if len(keys) != len(stims):
        raise MachineryError("LibsGen: duplicate stimuli (behaviour output garbled?)")
    if run is not None:
        run.add_tlc(res, f"LibsGen {label or plans}: {len(stims)} device multisets x shapes through Declare/Finish")
    stims.sort(key=lambda s: (len(s["decls"]), json.dumps([s["decls"], s["shape"], s["alt"]], sort_keys=True)))   # smallest multisets first
    return stims


def judge(stims: list[dict], obs: list[dict], run=None, label: str = "", sketch_sel=None) -> tuple[dict, dict, dict]:
    """-> ({tid: libs verdict}, {tid: sketch verdict}, {tid: index}) for the accepted scripts.
    sketch_sel: optional set of indices whose item sequence goes to SketchTrace (default: all)."""
    lt, st, idx = [], [], {}
    for i, (s, o) in enumerate(zip(stims, obs)):
        if o["status"] != "accept":
            continue
        tid = f"s{i}"
        idx[tid] = i
        lt.append(L.libs_trace(tid, o["decls"], o))
        if sorted(o.get("collected", o["libs"])) != sorted(o["libs"]):
            # the list the transpiler computes and hands to write_project is a request of its own (platformio.ini de-duplicates
            # what it is given): when the two differ, both are held to the specification
            lt.append(L.libs_trace(tid + "c", o["decls"], dict(o, libs=o["collected"])))
        for n, var in enumerate(o.get("variants", [])):       # the request written for boards of other platforms
            if sorted(var) != sorted(o["libs"]):
                lt.append(L.libs_trace(f"{tid}v{n}", o["decls"], dict(o, libs=var)))
        if sketch_sel is None or i in sketch_sel:
            st.append(L.sketch_trace(tid, o))
    if not lt:
        return {}, {}, idx
    lv = validate("LibsTrace", "INIT TInit\nNEXT TNext\n" + TRACE_CONSTS + "CONSTRAINT Verdict\nINVARIANT AcceptedStateAgrees\nCHECK_DEADLOCK FALSE\n",
                  lt, run, label=f"Libs {label}", chunk=6000)
    sv = validate("SketchTrace", "INIT TInit\nNEXT TNext\nCONSTANTS\n  Alphabet = {}\n  MaxLen = 0\nCONSTRAINT Verdict\n"
                  "INVARIANT AcceptedIsWellFormed\nCHECK_DEADLOCK FALSE\n", st, run, label=f"Sketch {label}", chunk=6000)
    return lv, sv, idx


def _short(o: dict) -> dict:
    return {"lib_deps": o.get("libs"), "includes": o.get("incl"), "library_objects": o.get("inst")}


def _stim_key(s: dict) -> str:
    return json.dumps([s["decls"], s["shape"], s.get("alt", 0)], sort_keys=True)


# ---------------------------------------------------------------------------------------------------------
def run_stratum(stims: list[dict], run, label: str, probes: list[bool] | None = None, sketch_sel=None) -> list[dict]:
    obs = L.observe_many(stims, workers=8)
    bad_status = [(s, o) for s, o in zip(stims, obs) if o["status"] != "accept"]
    run.cov["not_accepted"] = run.cov.get("not_accepted", 0) + len(bad_status)
    for s, o in bad_status[:5]:
        run.notes.append(f"{label}: script not accepted ({o['status']} {o.get('cls')}: {o.get('msg')}) stimulus={_stim_key(s)[:200]}")
    if len(bad_status) > max(1, len(stims) // 50):
        s, o = bad_status[0]
        raise MachineryError(f"C14 {label}: {len(bad_status)}/{len(stims)} generated scripts are not accepted by the transpiler "
                             f"(e.g. {o['status']} {o.get('cls')}: {o.get('msg')}); the check cannot observe them\n{o.get('src', '')[:1500]}")
    lv, sv, idx = judge(stims, obs, run, label, sketch_sel)
    for tid, i in idx.items():
        s, o = stims[i], obs[i]
        run.count(_stim_key(s), nontrivial=bool(s["decls"]))
        v, w = lv[tid], sv.get(tid, {"ok": True, "l": 0, "clause": "", "skipped": True})
        if v["ok"] and not lv.get(tid + "c", v)["ok"]:
            v = lv[tid + "c"]            # the computed list breaks the specification where the ini does not
        for n in range(len(o.get("variants", []))):
            if v["ok"] and not lv.get(f"{tid}v{n}", v)["ok"]:
                v = lv[f"{tid}v{n}"]     # ... or the ini written for another board does
        hit = [k for k in (v.get("known") or [])]
        if hit and not (probes and probes[i]):
            raise MachineryError(f"C14: known-deviation predicate matched outside the probe stratum: {_stim_key(s)}")
        for k in hit:
            nested = [d["kind"] for d in s["decls"] if d["place"] == "nested"]
            run.violation(f"known deviation reproduced: {nested} declared inside a compound statement ({s['shape']}): lib_deps={o['libs']} "
                          f"but includes={[h for h in o['incl'] if h != 'Arduino.h']} objects={[c for c, _ in o['inst']]}",
                          {"leg": "libs", "stim": s, "script": o["src"], "observed": _short(o), "verdict": v}, finding=k)
        if not v["ok"]:
            run.violation(f"lib_deps / #includes / library objects disagree ({v['clause']}): declared={[d['kind'] + '@' + d['place'] for d in o['decls']]} "
                          f"needs={s.get('need')} lib_deps={o['libs']} includes={o['incl']} objects={[c for c, _ in o['inst']]}",
                          {"leg": "libs", "stim": s, "script": o["src"], "expected": {"need": s.get("need")}, "observed": _short(o),
                           "verdict": v, "spec_module": "LibsTrace", "clause": v["clause"]})
        if not w["ok"]:
            at = o["items"][w["l"] - 1] if 0 < w["l"] <= len(o["items"]) else {"k": "end-of-sketch"}
            run.violation(f"emitted sketch is structurally ill-formed ({w['clause']}) at item {w['l']}: {json.dumps(at)[:200]}",
                          {"leg": "sketch", "stim": s, "script": o["src"], "observed": {"items": o["items"]}, "verdict": w,
                           "spec_module": "SketchTrace", "clause": w["clause"]})
    if idx:
        i = idx[sorted(idx, key=lambda t: -len(stims[idx[t]]["decls"]))[0]]
        run.sample({"stratum": label, "stimulus": stims[i], "observed": _short(obs[i]), "items": len(obs[i]["items"])}, limit=6)
    return obs


def compile_leg(stims: list[dict], obs: list[dict], run) -> None:
    from harness import fw
    jobs, meta = [], []
    for s, o in zip(stims, obs):
        if o["status"] == "accept":
            jobs.append({"src": o["src"], "passes": 0, "inputs": ""})
            meta.append((s, o))
    res = fw.run_many(jobs)
    stat = {"compiled_and_linked": 0, "c14_failures": 0, "belongs_to_C06": 0, "setup_crashed": 0, "c06_examples": []}
    for (s, o), r in zip(meta, res):
        if r.get("transpile") != "accept":
            raise MachineryError(f"C14 compile leg: script accepted in-process but {r.get('transpile')} in the firmware runner")
        if r.get("compile") == "ok":
            stat["compiled_and_linked"] += 1
            if r.get("rc") not in (0, None):
                stat["setup_crashed"] += 1
            continue
        cls, first = L.classify_compile_failure(r.get("stderr", ""))
        first = first.split("sketch.cpp:")[-1][:240]
        if cls == "c14":
            stat["c14_failures"] += 1
            run.violation(f"emitted sketch does not compile/link against the library headers: {first}",
                          {"leg": "compile", "stim": s, "script": o["src"], "observed": {**_short(o), "stderr": r.get("stderr", "")[-1500:]}})
        else:
            stat["belongs_to_C06"] += 1
            if len(stat["c06_examples"]) < 3:
                stat["c06_examples"].append({"stimulus": _stim_key(s)[:300], "error": first})
    run.cov["compile_leg"] = stat


REBOUND = "device-name-rebound-to-same-class"


def rebound_probe(run) -> None:
    """Probe of the known finding: ONE identifier bound first to a parallel LCD, then to an I2C LCD (both are `LCD` objects).
    Recorded signature: both libraries requested, only the first display's header included and class instantiated - anything
    else that `Libs` rejects is a violation of its own; a conforming observation means the finding is gone."""
    src = "\n".join(L.HEADER + ["unit = LCD(rs=2, en=3, d4=4, d5=5, d6=6, d7=7)", 'unit.write(0, 0, "p")', "unit = LCD(i2c_addr=0x27, cols=16, rows=2)",
                                'unit.write(0, 1, "i")', "while True:", "    sleep(5)"]) + "\n"
    o = L.observe(src)
    run.count("probe:" + REBOUND)
    if o["status"] != "accept":
        return                                     # refusing the script is allowed
    decls = [{"kind": "lcdp", "place": "pre"}, {"kind": "lcdi", "place": "pre"}]
    v = validate("LibsTrace", "INIT TInit\nNEXT TNext\n" + TRACE_CONSTS + "CONSTRAINT Verdict\nINVARIANT AcceptedStateAgrees\nCHECK_DEADLOCK FALSE\n",
                 [L.libs_trace("rebound", decls, o)], run, label="Libs probe (identifier re-bound)")["rebound"]
    if v["ok"]:
        return
    heads = sorted(h for h in o["incl"] if h.startswith("LiquidCrystal"))
    objs = sorted({c for c, _n in o["inst"] if c.startswith("LiquidCrystal")})
    rep = {"leg": "libs", "script": src, "observed": _short(o), "verdict": v}
    if (v["clause"] == "needed-header-not-included" and sorted(o["libs"]) == ["LiquidCrystal", "LiquidCrystal_I2C"]
            and heads == ["LiquidCrystal.h"] and objs == ["LiquidCrystal"]):
        run.violation("one identifier re-bound from a parallel LCD to an I2C LCD: both libraries are requested, only the first display is set up "
                      f"(lib_deps={o['libs']} includes={heads} objects={objs})", rep, finding=REBOUND)
    else:
        run.violation(f"identifier re-bound to a second LCD: lib_deps / #includes / library objects disagree ({v['clause']}): {_short(o)}", rep)


def check(run) -> None:
    quick = run.tier == "quick"
    run.cov["rule"] = ("a case = one TLC-generated device multiset (servos 0..2 split over before-loop / top-of-loop-body, parallel LCDs 0..2, "
                       "I2C LCDs 0..2, a subset of the 8 other kinds) in one script shape (uses in loop / in helper function / no main loop) and one "
                       "spelling/order variant, run through the real parse/emit/_collect_required_libraries; distinct = distinct (multiset, "
                       "shape, variant); non-trivial = at least one device declared")
    run.assumptions += [
        "libraries in scope: Servo, LiquidCrystal, LiquidCrystal_I2C; Wire.h is part of the LiquidCrystal_I2C include group (must accompany "
        "LiquidCrystal_I2C.h, needless without it); a lib_deps entry outside the three is a needless request",
        "sets + duplicate-freedom are compared, not the order of lib_deps or includes; non-library headers (Arduino.h, cstring) are ignored by Libs "
        "(Sketch still forbids including any header twice)",
        "library objects / top-level items are read from the emitted text by a light scanner (brace/paren depth, comments and literals skipped): "
        "`T name...;` at top level is a definition of name with type T, `void f();` a prototype; function identity = name + parameter text",
        "placements: top-level statements before `while True:` and the top of its body (servos) - the property's quantifier; devices inside "
        "compound statements only as the probe stratum of a listed known finding",
    ]
    model_check(run, quick)
    # clean stratum (+ the probe stratum of listed known findings, DESIGN 6.1, generated in the same TLC run)
    probing = KNOWN_NESTED in run.known
    sfx, shapes = ("P", "ShapesAll") if probing else ("", "ShapesClean")
    what = " + probes (one library device inside if/for/while/try before the main loop)" if probing else ""
    if quick:
        allst = generate("PlansQ" + sfx, shapes, "{0, 1, 2}", run, "clean grid (10 subsets of the other kinds, both spelling/order variants)" + what)
    else:
        allst = generate("PlansFull" + sfx, shapes, "{0}", run, "clean grid (all 256 subsets of the other kinds)" + what)
        allst += generate("PlansQ", "ShapesClean", "{1, 2}", run, "clean grid, second spelling/order variant and the one-identifier variant")
    is_probe = [any(d["place"] == "nested" for d in s["decls"]) for s in allst]
    if any(is_probe) and not probing:
        raise MachineryError("C14: nested placement generated outside the probe stratum")
    sketch_sel = None
    if not quick:   # Sketch leg: the whole 10-subset grid (both variants), every probe, and a seeded sample of the 256-subset grid
        import random
        rest = [i for i, s in enumerate(allst) if not (_in_quick_grid(s) or is_probe[i])]
        sketch_sel = set(range(len(allst))) - set(rest) | set(random.Random(run.seed).sample(rest, min(len(rest), 8000)))
        run.cov["sketch_leg_scripts"] = len(sketch_sel)
    allobs = run_stratum(allst, run, "clean+probe" if probing else "clean", probes=is_probe, sketch_sel=sketch_sel)
    rebound_probe(run)
    stims = [s for s, pr in zip(allst, is_probe) if not pr]
    obs = [o for o, pr in zip(allobs, is_probe) if not pr]
    run.cov["clean_scripts"] = len(stims)
    run.cov["probe_scripts"] = sum(is_probe)
    if not quick:
        sel = [(s, o) for s, o in zip(stims, obs) if s["alt"] == 0 and _in_compile_grid(s)]
        compile_leg([s for s, _ in sel], [o for _, o in sel], run)


_OTHERS = {"led", "rgb", "motor", "buzzer", "button", "pot", "ultra", "serial"}


def _in_quick_grid(s: dict) -> bool:
    n = len({d["kind"] for d in s["decls"]} & _OTHERS)
    return n in (0, 1, 8)


def _in_compile_grid(s: dict) -> bool:
    """compile leg: every library multiset x shape with none / all of the other kinds, and with each other kind alone in shape `loop`."""
    n = len({d["kind"] for d in s["decls"]} & _OTHERS)
    return n in (0, 8) or (n == 1 and s["shape"] == "loop")


# ---------------------------------------------------------------------------------------------------------
def replay(path: str) -> int:
    r = json.load(open(path))
    stim = r["stim"]
    lay = L.layout(stim)
    o = L.observe(lay["src"])
    o["src"], o["decls"] = lay["src"], lay["decls"]
    print(json.dumps({"status": o["status"], **_short(o)}))
    if o["status"] != "accept":
        print(f"script not accepted: {o.get('cls')} {o.get('msg')}")
        return 2
    lv, sv, _ = judge([stim], [o])
    v, w = lv["s0"], sv["s0"]
    print("Libs  :", json.dumps(v))
    print("Sketch:", json.dumps(w))
    fail = (not v["ok"]) or (not w["ok"])
    if r.get("leg") == "compile":
        from harness import fw
        res = fw.run_many([{"src": o["src"], "passes": 0, "inputs": ""}])[0]
        print("compile:", res.get("compile"), (res.get("stderr") or "")[-400:])
        if res.get("compile") != "ok" and L.classify_compile_failure(res.get("stderr", ""))[0] == "c14":
            fail = True
    if fail:
        print(f"VIOLATION property=C14 replay={path}")
        return 1
    if v.get("known"):
        print(f"KNOWN-FINDING: property=C14 {v['known']}")
    return 0


def selftest(seed: int) -> int:
    """Negative controls: corrupt one observed field of an accepted trace / drop an event -> rejected, naming the clause."""
    bad = 0
    stim = {"decls": [{"kind": "led", "place": "pre"}, {"kind": "servo", "place": "pre"}, {"kind": "lcdp", "place": "pre"},
                      {"kind": "lcdi", "place": "pre"}, {"kind": "servo", "place": "loop"}], "shape": "fn", "alt": 0}
    plain = {"decls": [{"kind": "led", "place": "pre"}, {"kind": "buzzer", "place": "pre"}], "shape": "loop", "alt": 0}
    o, p = L.observe_many([stim, plain])
    if o["status"] != "accept" or p["status"] != "accept":
        raise MachineryError("selftest: base scripts not accepted")
    base = L.libs_trace("orig", o["decls"], o)
    pbase = L.libs_trace("plain", p["decls"], p)

    def mut(tid, f, src=base):
        t = copy.deepcopy(src)
        t["id"] = tid
        f(t)
        return t
    lib_cases = {
        "drop-servo-request": (mut("drop-servo-request", lambda t: t["ev"][-1]["libs"].remove("Servo")), "needed-library-not-requested"),
        "request-twice": (mut("request-twice", lambda t: t["ev"][-1]["libs"].append("Servo")), "library-requested-twice"),
        "request-wire": (mut("request-wire", lambda t: t["ev"][-1]["libs"].append("Wire")), "library-requested-needlessly"),
        "i2c-asks-parallel": (mut("i2c-asks-parallel", lambda t: t["ev"][-1].__setitem__(
            "libs", ["LiquidCrystal" if x == "LiquidCrystal_I2C" else x for x in t["ev"][-1]["libs"]])), "library-requested-twice"),
        "include-twice": (mut("include-twice", lambda t: t["ev"][-1]["incl"].append("Servo.h")), "header-included-twice"),
        "drop-wire": (mut("drop-wire", lambda t: t["ev"][-1]["incl"].remove("Wire.h")), "needed-header-not-included"),
        "drop-lcd-include": (mut("drop-lcd-include", lambda t: t["ev"][-1]["incl"].remove("LiquidCrystal.h")), "needed-header-not-included"),
        "no-servo-object": (mut("no-servo-object", lambda t: t["ev"][-1].__setitem__("inst", [c for c in t["ev"][-1]["inst"] if c != "Servo"])),
                            "needed-class-not-instantiated"),
        "needless-include": (mut("needless-include", lambda t: t["ev"][-1]["incl"].append("Servo.h"), pbase), "header-included-needlessly"),
        "needless-request": (mut("needless-request", lambda t: t["ev"][-1]["libs"].append("LiquidCrystal"), pbase), "library-requested-needlessly"),
        "needless-object": (mut("needless-object", lambda t: t["ev"][-1]["inst"].append("Servo"), pbase), "class-instantiated-needlessly"),
        "drop-finish": (mut("drop-finish", lambda t: t["ev"].pop()), "no-finish-event"),
        "drop-declare": (mut("drop-declare", lambda t: t["ev"].pop(2)), "library-requested-needlessly"),
    }
    cfg = "INIT TInit\nNEXT TNext\n" + TRACE_CONSTS + "CONSTRAINT Verdict\nINVARIANT AcceptedStateAgrees\nCHECK_DEADLOCK FALSE\n"
    v = validate("LibsTrace", cfg, [base, pbase] + [c[0] for c in lib_cases.values()])
    for tid in ("orig", "plain"):
        print("Libs", tid, v[tid])
        bad += not v[tid]["ok"]
    for tid, (_t, clause) in lib_cases.items():
        got = v[tid]
        okc = (not got["ok"]) and (clause is None or got["clause"] == clause)
        print("Libs", tid, "->", got["ok"], got["clause"], "at", got["l"], "" if okc else f"  !! expected rejection {clause}")
        bad += not okc
    # sketch item controls
    sb = L.sketch_trace("orig", o)
    n_inc = next(i for i, it in enumerate(sb["items"]) if it["n"] == "Servo.h")
    n_obj = next(i for i, it in enumerate(sb["items"]) if it["k"] == "global" and it["t"] == "Servo")

    def smut(tid, f):
        t = copy.deepcopy(sb)
        t["id"] = tid
        f(t["items"])
        return t
    sk_cases = {
        "dup-include": (smut("dup-include", lambda it: it.insert(n_inc + 1, dict(it[n_inc]))), "duplicate-include", n_inc + 2),
        "no-loop": (smut("no-loop", lambda it: it.pop()), "no-loop", None),
        "two-setups": (smut("two-setups", lambda it: it.append({"k": "setup", "n": "setup", "t": "setup()"})), "second-setup", len(sb["items"]) + 1),
        "object-before-include": (smut("object-before-include", lambda it: it.insert(0, it.pop(n_obj))), "class-instantiated-without-include", 1),
        "include-without-object": (smut("include-without-object", lambda it: [it.remove(x) for x in list(it) if x["k"] == "global" and x["t"] == "Servo"]),
                                   "include-without-instantiated-class", None),
        "dup-global": (smut("dup-global", lambda it: it.insert(n_obj + 1, dict(it[n_obj]))), "duplicate-definition", n_obj + 2),
        "wire-alone": (smut("wire-alone", lambda it: [it.remove(x) for x in list(it) if x["n"] == "LiquidCrystal_I2C.h" or x["t"] == "LiquidCrystal_I2C"]),
                       "wire-without-i2c-header", None),
    }
    scfg = "INIT TInit\nNEXT TNext\nCONSTANTS\n  Alphabet = {}\n  MaxLen = 0\nCONSTRAINT Verdict\nINVARIANT AcceptedIsWellFormed\nCHECK_DEADLOCK FALSE\n"
    w = validate("SketchTrace", scfg, [sb] + [c[0] for c in sk_cases.values()])
    print("Sketch orig", w["orig"])
    bad += not w["orig"]["ok"]
    for tid, (_t, clause, at) in sk_cases.items():
        got = w[tid]
        okc = (not got["ok"]) and got["clause"] == clause and (at is None or got["l"] == at)
        print("Sketch", tid, "->", got["ok"], got["clause"], "at", got["l"], "" if okc else f"  !! expected {clause} at {at}")
        bad += not okc
    # scanner control: text with traps
    text = ('#include <Arduino.h>\n// #include <Servo.h>\n/* Servo ghost; */\n#include "Wire.h"\nconst char *s = "Servo x; { #include <A.h>";\n'
            'int arr[] = {1, 2, 3};\nvoid helper();\ntemplate <typename T>\nT twice(T v) {\n  Servo inner;\n  return v + v;\n}\n'
            'struct P { int a; };\nServo __servo_a;\nLiquidCrystal_I2C lcd(0x27, 16, 2);\nunsigned long t0 = 0UL;\n'
            'void setup() {\n  if (1) { }\n}\nvoid loop() { }\n')
    got = [(it["k"], it["n"], it["t"]) for it in L.scan_items(text)]
    want = [("include", "Arduino.h", ""), ("include", "Wire.h", ""), ("global", "s", "char"), ("global", "arr", "int"),
            ("proto", "helper", "void helper()"), ("fn", "twice", "twice(T v)"), ("type", "P", "struct"), ("global", "__servo_a", "Servo"),
            ("global", "lcd", "LiquidCrystal_I2C"), ("global", "t0", "unsigned long"), ("setup", "setup", "setup()"), ("loop", "loop", "loop()")]
    print("scanner:", "ok" if got == want else f"!! {got}")
    bad += got != want
    diag = {
        "sketch.cpp:3:1: error: \u2018Servo\u2019 does not name a type": "c14",
        "sketch.cpp:3:1: error: 'LiquidCrystal_I2C' does not name a type; did you mean 'LiquidCrystal'?": "c14",
        "sketch.cpp:1:10: fatal error: Servo.h: No such file or directory": "c14",
        "sketch.cpp:9:3: error: \u2018__servo_sv1\u2019 was not declared in this scope": "c14",
        "sketch.cpp:9:3: error: \u2018__redu_lcd_lp0\u2019 was not declared in this scope": "c14",
        "sketch.cpp:9:3: error: \u2018__redu_ultrasonic_measure_us0\u2019 was not declared in this scope": "c06",
        "sketch.cpp:9:3: error: \u2018__servo_min_angle_sv1\u2019 was not declared in this scope\nsketch.cpp:12:3: error: expected ';'": "c06",
        "sketch.cpp:9:3: error: \u2018__redu_lcd_cols_lp0\u2019 was not declared in this scope": "c06",
    }
    for text, want_cls in diag.items():
        got_cls = L.classify_compile_failure(text)[0]
        if got_cls != want_cls:
            print("classifier !!", text, got_cls)
            bad += 1
    print("compile-diagnostic classifier:", "ok" if all(L.classify_compile_failure(t)[0] == c for t, c in diag.items()) else "!!")
    print("selftest", "FAILED" if bad else "passed")
    return 1 if bad else 0
