"""C11 - transpiling never runs user code, has no side effects, fails only cleanly.

Decided by: tla/Sandbox.tla (the audit events a call of parse()+emit() may raise: AST-only compilations and two
interpreter artefacts; canaries, module state and process environment intact) and tla/Pipeline.tla (outcome
classes Accept / Reject(ValueError) / Reject(SyntaxError) for text that is not Python, within 2 s of CPU;
Crash(other class) and Timeout are not behaviours of the specification).  TLC enumerates syntactic slot x
payload; further inputs are whole stdlib sources, function fragments cut out of them, hypothesis-generated
text / byte noise / token soup and random expressions placed in slots.  Every input runs in a pooled worker
process of /repo's working tree with sys.addaudithook installed before Reduino is imported and a CPU watchdog;
the recorded trace is validated by TLC (SandboxTrace, PipelineTrace) - the audit hook, the canaries and the
clock are observers whose reports enter the trace as events; membership in the specification is the verdict."""
from __future__ import annotations

import copy
import json
import random
from pathlib import Path

from harness import sandbox_rec as R
from harness.common import REPO_SRC, MachineryError, subdir
from harness.tlc import run_tlc, write_json
from harness.tracecheck import validate

LEVEL = "exploration"
TLA = Path(__file__).resolve().parent.parent / "tla"
KNOWN_IDS = ["pow-tower-timeout", "deep-expression-recursionerror", "nonfinite-number-overflowerror",
             "short-tuple-assignment-indexerror", "syntaxerror-for-valid-python"]


RSS_GROW_MB = 384         # "terminates promptly" also bounds the memory one transpilation of a small input (<= 64 KiB) may claim


def bucket(cpu_ms: int, outcome: str, rss_grow_mb: int = 0) -> str:
    # a transpilation that claims hundreds of megabytes for a few lines of input is not prompt either (the worker's own address
    # space limit would otherwise turn the blow-up into a quiet MemoryError that the code swallows): same bucket as the time limit
    if outcome == "timeout" or cpu_ms > R.LIMIT_S * 1000 or rss_grow_mb > RSS_GROW_MB:
        return "gt2s"
    return "le100ms" if cpu_ms <= 100 else "le2s"


def to_trace(job: dict, rec: dict) -> dict:
    py = R.is_python(job["src"])
    return {"id": job["id"],
            "inp": {"python": py, "tags": R.tags_of(job["src"], py)},
            "audit": [{"ev": a[0], "grp": a[0].split(".")[0], "key": a[1], "kind": a[2], "n": a[3]} for a in rec["audit"]],
            "fin": {"canary": bool(rec["canary"]), "snap": bool(rec["snap_same"]), "env": bool(rec["env_same"])},
            "out": {"class": rec["outcome"], "cls": rec["cls"], "bucket": bucket(rec["cpu_ms"], rec["outcome"], rec.get("rss_grow_mb", 0) if len(job["src"]) <= 65536 else 0)}}


def model_check(run) -> None:
    for m in ("SandboxMC", "PipelineMC"):
        res = run_tlc(m, m + ".cfg", workers=4, timeout=300)
        if not res.ok:
            raise MachineryError(f"{m}: spec-level check failed: {res.error} {res.violated}\n{res.stdout[-2000:]}")
        run.add_tlc(res, f"{m}: exhaustive model check of the specification's own invariants")


def grid_pairs(run) -> list[dict]:
    g = write_json("grid.json", {"slots": [{"id": s[0], "cls": s[1]} for s in R.SLOTS], "payloads": [{"id": p[0], "cls": p[1]} for p in R.PAYLOADS]})
    res = run_tlc("PipelineGen", "PipelineGen.cfg", env={"GRID_FILE": str(g)}, workers=1, timeout=600)
    if not res.ok or len(res.json) != len(R.SLOTS) * len(R.PAYLOADS):
        raise MachineryError(f"PipelineGen: expected {len(R.SLOTS) * len(R.PAYLOADS)} pairs, got {len(res.json)}: {res.error}\n{res.stdout[-1500:]}")
    run.add_tlc(res, f"PipelineGen: slot x payload enumeration ({len(R.SLOTS)} slots x {len(R.PAYLOADS)} payloads)")
    return res.json


def grid_jobs(pairs: list[dict], quick: bool, rng: random.Random) -> list[dict]:
    d = subdir("c11-canaries")
    slow = {"pow-tower", "pow-tower-10"}     # the known 2 s time-outs: probe stratum in the quick tier
    probe_slots = {"delay"} | set(rng.sample([s[0] for s in R.SLOTS if s[1] in ("num", "pin")], 5))
    jobs = []
    for i, pr in enumerate(sorted(pairs, key=lambda p: (p["slot"], p["payload"]))):
        if quick and pr["payload"] in slow and pr["slot"] not in probe_slots:
            continue
        cf, cg = str(d / f"canary_{i}"), f"REDU_CANARY_{i}"
        jobs.append({"id": f"grid:{pr['slot']}|{pr['payload']}", "kind": "grid", "slot": pr["slot"], "payload": pr["payload"],
                     "src": R.render(pr["slot"], pr["payload"], cf, cg), "canary_file": cf, "canary_global": cg,
                     "markers": list(R.PAYLOAD[pr["payload"]][3]) if len(R.PAYLOAD[pr["payload"]]) > 3 else []})
    return jobs


def expr_jobs(n: int, seed: int) -> list[dict]:
    """hypothesis-generated expressions (mixed literal types, operators, casts, subscripts, f-strings) placed in slots."""
    from hypothesis import HealthCheck, Phase, given, settings, strategies as st, seed as hseed
    atoms = st.one_of(st.integers(-3, 300).map(str),
                      st.sampled_from(["0", "1", "2.5", "0.0", "1e3", "'a'", '"bc"', "''", "True", "False", "None", "x", "qq", "items", "[]",
                                       "[1, 2]", "(1, 2)", "-1", "0x10", 'f"{x}"', 'f"a{1+1}b"', "len", "led", "A0", "1e300"]))
    BIN = ["+", "-", "*", "/", "//", "%", "<<", ">>", "&", "|", "^", "<", ">", "==", "!=", "<=", ">=", "and", "or", "in", "not in", "is"]

    def ext(ch):
        return st.one_of(
            st.tuples(ch, st.sampled_from(BIN), ch).map(lambda t: f"({t[0]} {t[1]} {t[2]})"),
            st.tuples(ch, st.sampled_from(BIN), ch).map(lambda t: f"{t[0]} {t[1]} {t[2]}"),
            st.tuples(st.sampled_from(["-", "+", "not ", "~"]), ch).map(lambda t: f"{t[0]}{t[1]}"),
            st.tuples(st.sampled_from(["int", "float", "str", "bool", "len", "abs", "max", "min", "helper", "round", "sum"]),
                      st.lists(ch, max_size=3)).map(lambda t: f"{t[0]}({', '.join(t[1])})"),
            st.tuples(ch, ch, ch).map(lambda t: f"({t[0]} if {t[1]} else {t[2]})"),
            st.tuples(ch, ch).map(lambda t: f"{t[0]}[{t[1]}]"),
            st.tuples(ch, st.integers(0, 3)).map(lambda t: f"{t[0]} ** {t[1]}"),     # small exponents: stays clear of the pow-tower trigger
            st.lists(ch, max_size=3).map(lambda l: "[" + ", ".join(l) + "]"),
            st.tuples(ch, ch, ch).map(lambda t: f"{t[0]} < {t[1]} <= {t[2]}"),
            ch.map(lambda e: 'f"{' + e.replace('"', "'") + '}"'))

    slots = ["delay", "assign", "if-cond", "while-cond", "list-item", "led-brightness", "serial-write", "helper-arg", "lcd-text", "fstring-field",
             "loop-count", "return-value", "augassign", "subscript", "motor-speed", "pin-led", "lcd-glyph-item", "comprehension-element",
             "tuple-assign", "print-arg", "melody-name", "led-pattern", "target-port", "kw-button-handler", "statement"]
    out: list = []

    @settings(max_examples=n, database=None, deadline=None, phases=[Phase.generate], suppress_health_check=list(HealthCheck))
    @given(st.sampled_from(slots), st.recursive(atoms, ext, max_leaves=8))
    def coll(s, e):
        out.append((s, e))

    hseed(seed)(coll)()
    pre = R.PRE + "x = 3\nitems = [1, 2, 3]\ndef helper(v):\n    return v + 1\n"
    return [{"id": f"expr:{i}:{s}", "kind": "expr", "src": pre + R.SLOT[s][2].replace("{P}", e)} for i, (s, e) in enumerate(out[:n])]


def build_jobs(run, quick: bool, rng: random.Random) -> list[dict]:
    pairs = grid_pairs(run)
    jobs = grid_jobs(pairs, quick, rng)
    files = R.stdlib_files(150 if quick else 2000, run.seed)
    jobs += [{"id": f"file:{f}", "kind": "file", "src": t} for f, t in files]
    jobs += [{"id": f"frag:{f}", "kind": "frag", "src": t} for f, t in R.fragments(files, 10 if quick else 12, run.seed)]
    jobs += [{"id": f"noise:{i}", "kind": "noise", "src": t} for i, (_n, t) in enumerate(R.noise(500 if quick else 20000, run.seed))]
    jobs += expr_jobs(1000 if quick else 10000, run.seed)
    jobs += [{"id": f"growth:{n}", "kind": "growth", "src": t} for n, t in R.growth_scripts()]
    return jobs


def execute(jobs: list[dict], run=None, workers: int = 8):
    recs, used = R.run_inputs(jobs, workers=workers)
    if not used.startswith(str(REPO_SRC)):
        raise MachineryError(f"workers imported Reduino from {used}, expected {REPO_SRC}")
    traces = [to_trace(j, r) for j, r in zip(jobs, recs)]
    sv = validate("SandboxTrace", "SandboxTrace.cfg", traces, run, label="sandbox", chunk=6000)
    pv = validate("PipelineTrace", "PipelineTrace.cfg", traces, run, label="pipeline", chunk=6000)
    if run is not None:      # the same traces, second specification: count the TLC work, not the traces twice
        run.cov["traces_validated_against_impl"] = len(traces)
    return recs, traces, sv, pv


def report(run, jobs, recs, traces, sv, pv) -> None:
    hits: dict = {}
    for j, r, t in zip(jobs, recs, traces):
        run.count(j["id"], nontrivial=j["kind"] != "noise" or r["outcome"] != "accept")
        s, p = sv[j["id"]], pv[j["id"]]
        for k in p.get("known") or []:
            hits.setdefault(k, []).append(j["id"])
        if not s["ok"]:
            a = t["audit"][s["l"] - 1] if s["l"] <= len(t["audit"]) else t["fin"]
            run.violation(f"{j['id']}: forbidden effect during parse()/emit() ({s['clause']}): {json.dumps(a)[:200]}",
                          {"id": j["id"], "src": j["src"], "canary_file": j.get("canary_file"), "canary_global": j.get("canary_global"),
                           "spec": "Sandbox", "verdict": s, "record": r})
        if not p["ok"]:
            run.violation(f"{j['id']}: outcome outside the specification ({p['clause']}): {r['outcome']} {r['cls']} {r['msg'][:80]} "
                          f"at {r.get('site', '')} cpu={r['cpu_ms']}ms rss+={r.get('rss_grow_mb', 0)}MB tags={t['inp']['tags']}",
                          {"id": j["id"], "src": j["src"], "spec": "Pipeline", "verdict": p, "record": r, "inp": t["inp"]})
    for k, ids in sorted(hits.items()):
        run.violation(f"{len(ids)} inputs, e.g. {ids[0]}", {}, finding=k)
        if k not in run.known:
            run.violation(f"known-finding id {k} reported by the specification but not listed in known/C11.json", {"ids": ids[:5]})
    run.cov["known_hits"] = {k: len(v) for k, v in hits.items()}


def check(run) -> None:
    quick = run.tier == "quick"
    rng = random.Random(f"c11-{run.seed}")
    run.cov["rule"] = ("a case = one input text run through parse()+emit() in an observed worker; distinct = distinct input; non-trivial = "
                       "every slot x payload script, stdlib file, fragment and expression script (noise counts only when it is not simply accepted)")
    run.assumptions += ["effects are observed through CPython's audit hook (PEP 578), planted canaries, os.environ / cwd / recursion-limit "
                        "comparison and a module-state snapshot (bindings named _verif*, the REDUINO_VERIF hook's own log, left out); an effect "
                        "invisible to all of these is not detected",
                        f"'promptly' = at most {R.LIMIT_S} s of CPU time of the worker for one input (inputs up to 200 kB)",
                        f"workers run with an address-space limit of {R.MEM_LIMIT >> 20} MiB",
                        "'text that is not Python' = CPython's compile() refuses it (reference leg, nothing executed)",
                        "SyntaxWarnings printed by CPython for fragments the parser compiles are ignored (stderr, not covered by the property)"]
    model_check(run)
    jobs = build_jobs(run, quick, rng)
    recs, traces, sv, pv = execute(jobs, run, workers=8 if quick else 12)
    kinds: dict = {}
    for j, r in zip(jobs, recs):
        kinds.setdefault(j["kind"], {}).setdefault(r["outcome"] + (":" + r["cls"] if r["cls"] else ""), 0)
        kinds[j["kind"]][r["outcome"] + (":" + r["cls"] if r["cls"] else "")] += 1
    aud: dict = {}
    for t in traces:
        for a in t["audit"]:
            k = f"{a['ev']}|{a['key'] if a['ev'] != 'compile' else ''}|{a['kind']}"
            aud[k] = aud.get(k, 0) + a["n"]
    run.cov.update({"inputs_by_kind": {k: sum(v.values()) for k, v in kinds.items()}, "outcomes_by_kind": kinds, "audit_events_seen": aud,
                    "slots": len(R.SLOTS), "payloads": len(R.PAYLOADS)})
    run.sample({"input": jobs[0]["id"], "trace": {k: traces[0][k] for k in ("inp", "audit", "fin", "out")}})
    run.sample({"input": jobs[-1]["id"], "src": jobs[-1]["src"][-120:], "out": traces[-1]["out"]})
    report(run, jobs, recs, traces, sv, pv)


# ----------------------------------------------------------------------------------------------------------------
def replay(path: str) -> int:
    r = json.load(open(path))
    job = {"id": r["id"], "kind": "replay", "src": r["src"]}
    for k in ("canary_file", "canary_global"):
        if r.get(k):
            job[k] = r[k]
    recs, traces, sv, pv = execute([job])
    s, p = sv[job["id"]], pv[job["id"]]
    print(json.dumps({"record": {k: recs[0][k] for k in ("outcome", "cls", "msg", "site", "cpu_ms", "canary", "snap_same", "audit")},
                      "sandbox": s, "pipeline": p}))
    if not s["ok"] or not p["ok"]:
        print(f"VIOLATION property=C11 replay={path}")
        return 1
    return 0


def selftest(seed: int) -> int:
    """Negative controls on a real accepted trace: one forbidden audit record / one tripped canary / one changed
    outcome each must be rejected by name; an exact match of a known deviation must be excused, a near miss not."""
    bad = 0
    jobs = [{"id": "ok", "kind": "grid", "src": R.render("delay", "none", "/nonexistent/c", "REDU_X")},
            {"id": "pow", "kind": "grid", "src": R.render("delay", "pow-tower", "/nonexistent/c", "REDU_X")}]
    recs, traces, sv, pv = execute(jobs)
    print("real traces:", {k: (sv[k]["ok"], pv[k]["ok"], pv[k]["known"]) for k in sv})
    if not (sv["ok"]["ok"] and pv["ok"]["ok"] and pv["pow"]["known"] == ["pow-tower-timeout"]):
        bad += 1
    t = traces[0]

    def var(name, fn):
        c = copy.deepcopy(t)
        c["id"] = name
        fn(c)
        return c

    A = lambda ev, key, kind="": {"ev": ev, "grp": ev.split(".")[0], "key": key, "kind": kind, "n": 1}
    sand = {"file-opened": lambda c: c["audit"].append(A("open", "'/tmp/debug.log'|'a'")),
            "code-executed": lambda c: c["audit"].insert(0, A("exec", "<module>@<string>")),
            "compiled-to-code": lambda c: c["audit"].append(A("compile", "<string>", "code")),
            "string-evaluated": lambda c: c["audit"].append(A("compile", "<string>", "hidden")),
            "module-imported": lambda c: c["audit"].append(A("import", "os")),
            "os-call": lambda c: c["audit"].append(A("os.system", "'touch x'")),
            "process-spawned": lambda c: c["audit"].append(A("subprocess.Popen", "'touch'")),
            "network-access": lambda c: c["audit"].append(A("socket.connect", "")),
            "canary-tripped": lambda c: c["fin"].update(canary=True),
            "module-state-mutated": lambda c: c["fin"].update(snap=False),
            "environment-changed": lambda c: c["fin"].update(env=False)}
    res = validate("SandboxTrace", "SandboxTrace.cfg", [var(k, f) for k, f in sand.items()])
    for k in sand:
        good = (not res[k]["ok"]) and res[k]["clause"] == k
        print("sandbox", k, "->", res[k], "OK" if good else "UNEXPECTED")
        bad += 0 if good else 1
    pipe = {"crash-KeyError": (lambda c: c["out"].update({"class": "crash", "cls": "KeyError"}), False, []),
            "timeout": (lambda c: c["out"].update({"class": "timeout", "cls": "", "bucket": "gt2s"}), False, []),
            "not-prompt": (lambda c: c["out"].update(bucket="gt2s"), False, []),
            "syntaxerror-for-valid-python": (lambda c: c["out"].update({"class": "reject", "cls": "SyntaxError"}), False, []),
            "reject-class": (lambda c: c["out"].update({"class": "reject", "cls": "KeyError"}), False, []),
            "excused-pow": (lambda c: (c["inp"]["tags"].append("pow-tower"), c["out"].update({"class": "timeout", "cls": "", "bucket": "gt2s"})), True, ["pow-tower-timeout"]),
            "near-miss-pow": (lambda c: (c["inp"]["tags"].append("pow-tower"), c["out"].update({"class": "crash", "cls": "MemoryError"})), False, []),
            "excused-walrus": (lambda c: (c["inp"]["tags"].append("walrus"), c["out"].update({"class": "reject", "cls": "SyntaxError"})), True, ["syntaxerror-for-valid-python"])}
    res = validate("PipelineTrace", "PipelineTrace.cfg", [var(k, f[0]) for k, f in pipe.items()])
    for k, (_f, ok, kn) in pipe.items():
        v = res[k]
        exp_clause = "" if ok else ("crash-MemoryError" if k == "near-miss-pow" else k)
        good = v["ok"] == ok and v["known"] == kn and v["clause"] == exp_clause
        print("pipeline", k, "->", v, "OK" if good else "UNEXPECTED")
        bad += 0 if good else 1
    return 1 if bad else 0
