"""C03 - transpile-time evaluation (constant folding / propagation) never changes meaning.

Decided by: nothing in the specifications folds.  (A) Lang: TLC evaluates FoldSites x Routings programs (the value
reaches sleep(), range(), arithmetic, analog_write(), a list index, len() of a str / list by ten routings: literal,
constant variable, re-assigned after the site, re-assigned before it in a taken / untaken branch, in a loop body that
runs 2 / 0 times, in a called / uncalled function, read from a sensor) and judges the firmware and CPython traces.
(B) Devices: TLC-generated call histories of Led / RGBLed / Servo / DCMotor are rendered with the same routings for
every numeric argument; the firmware's per-call pin waveforms must still be the ones the device specification
allows for the ORIGINAL values - a stale or wrongly folded argument shows up as a different level or delay."""
from __future__ import annotations

import concurrent.futures as cf
import json
import random

from harness import devcheck, fw, fw_act, lang, langcheck, langgen, langprobes
from harness.common import NCPU
from harness.devcheck import DEV
from harness.langcheck import Strata, judge, run_packed
from harness.tracecheck import validate

LEVEL = "model_checking"
PACK = 12


def _job(args):
    kind, hs, routing = args
    return fw_act.run_pack(kind, hs, routing)


def device_part(run, quick: bool) -> None:
    fw.ensure_runtime(False)
    for dev in DEV:
        hs = devcheck.generate(dev, "quick", 2, run)
        # keep histories whose numeric arguments stay meaningful under the routing's +1 / -2 variations
        hs = devcheck.sample(hs, 36 if quick else 240, run.seed)
        # (the literal rendering is a routing of its own here: it spells some integer-valued arguments as name-free expressions
        #  with a fractional value, which the transpiler may fold - to int(value), as the host class and the emitted C++ do)
        jobs = [(dev, hs[i:i + PACK], r, i) for r in ("lit",) + fw_act.ROUTINGS for i in range(0, len(hs), PACK)]
        with cf.ProcessPoolExecutor(max_workers=NCPU) as ex:
            results = list(ex.map(_job, [(j[0], j[1], j[2]) for j in jobs], chunksize=1))
            singles = [(dev, [h], r, base + k) for (d, part, r, base), res in zip(jobs, results) if "traces" not in res for k, h in enumerate(part)]
            sres = list(ex.map(_job, [(j[0], j[1], j[2]) for j in singles], chunksize=1)) if singles else []
        traces, meta = [], {}
        for (d, part, r, base), res in list(zip(jobs, results)) + list(zip(singles, sres)):
            if "traces" not in res:
                if len(part) == 1:
                    run.count(f"dev:{dev}:{r}:{base}")
                    if res["transpile"] == "reject":
                        run.cov["rejected"] = run.cov.get("rejected", 0) + 1      # refusing is allowed
                    elif res["transpile"] == "accept":
                        run.cov["compile_fail_see_C06"] = run.cov.get("compile_fail_see_C06", 0) + 1
                continue
            for k, h in enumerate(part):
                tid = f"{dev}-{r}-{base + k}"
                run.count(f"dev:{dev}:{r}:{base + k}")
                tr = res["traces"][k]
                if tr is None:
                    run.violation(f"{dev}/{r}: firmware trace lacks its call markers", {"device": dev, "history": h, "routing": r, "script": res["src"]})
                    continue
                t = {"id": tid, "side": "fw", "ev": tr}
                if dev == "servo":
                    t["cal"] = h["cal"]
                traces.append(t)
                meta[tid] = (h, r, res["src"], res["inputs"])
        if not traces:
            continue
        verdicts = validate(DEV[dev]["trace"], DEV[dev]["trace"] + ".cfg", traces, run, label=f"{dev} routings")
        run.sample({"device": dev, "routing": meta[traces[-1]["id"]][1], "history": meta[traces[-1]["id"]][0],
                    "script_tail": meta[traces[-1]["id"]][2][-300:]})
        for tid, v in verdicts.items():
            if not v["ok"]:
                h, r, src, inputs = meta[tid]
                ev = next(t for t in traces if t["id"] == tid)["ev"]
                run.violation(f"{dev}: value routed as '{r}' reaches the device changed: call {v['l'] - 1} leaves the specification "
                              f"({v['clause']}): {json.dumps(ev[v['l'] - 1])[:220]}",
                              {"device": dev, "history": h, "routing": r, "verdict": v, "script": src, "inputs": inputs})


def check(run) -> None:
    quick = run.tier == "quick"
    run.cov["rule"] = ("a case = one fold site x routing x value (Lang part) or one device call history x routing (device part), executed as "
                       "firmware and judged by TLC against the spec that evaluates nothing early; distinct = distinct (site, routing, value) / "
                       "(device, history, routing)")
    run.assumptions += ["routings are Python-equivalent by construction: the Lang spec and CPython both confirm the value at the site",
                        "device part: arguments that the transpiler requires to be literals (patterns) stay literals"]
    counts: dict = {}
    st = Strata(run, "C03")
    snips = langgen.fold_snippets() + langgen.list_routing_snippets() + langgen.scope_fold_snippets()
    byid, singles = {}, []
    for s in snips:
        p = langgen.single(s)
        byid[p["id"]] = s
        singles.append(p)
    clean = [byid[p["id"]] for p in st.split(singles, "fold sites")]
    run_packed(run, clean, "setup", "foldsite", counts, size=16)
    run_packed(run, [s for s in clean if not s["defs"]], "loop", "foldsite", counts, size=16, prefix="pkl")
    if not quick:
        run_packed(run, [s for s in clean if not s["defs"]], "function", "foldsite", counts, size=16, prefix="pkf")
    langprobes.run_probes(run, "C03")
    device_part(run, quick)
    lcd_part(run)
    run.cov["outcomes"] = counts
    run.cov["probe_stratum_candidates"] = {k: len(v) for k, v in st.probe.items()}


def replay(path: str) -> int:
    r = json.load(open(path))
    if "program" in r:
        p = r["program"]
        res = lang.three_way([p])[p["id"]]
        o = langcheck.outcome(res)
        print(json.dumps({"outcome": o, "fw": res["verdict"]["fw"]}))
        bad = o in ("mismatch", "run_fail")
    else:
        dev, h = r["device"], r["history"]
        res = fw_act.run_pack(dev, [h], r["routing"])
        if "traces" not in res or res["traces"][0] is None:
            bad = res["transpile"] != "reject"
        else:
            t = {"id": "replay", "side": "fw", "ev": res["traces"][0]}
            if dev == "servo":
                t["cal"] = h["cal"]
            v = validate(DEV[dev]["trace"], DEV[dev]["trace"] + ".cfg", [t])["replay"]
            print(json.dumps(v))
            bad = not v["ok"]
    if bad:
        print(f"VIOLATION property=C03 replay={path}")
        return 1
    return 0


def selftest(seed: int) -> int:
    """Negative control: a firmware trace produced with the routing's OTHER value (what a stale fold would bake in)
    must be rejected by the device spec for the original history."""
    h = [{"act": "set_brightness", "a": [128], "p": []}]
    stale = [{"act": "set_brightness", "a": [129], "p": []}]
    res = fw_act.run_pack("led", [stale], "lit")
    tr = res["traces"][0]
    for e, c in zip(tr[1:], h):
        e["a"] = c["a"]          # claim the original call
    v = validate("LedTrace", "LedTrace.cfg", [{"id": "stale", "side": "fw", "ev": tr}])["stale"]
    print(v)
    return 0 if not v["ok"] else 1


# ------------------------------------------------------------------------------------------------ LCD flags and arguments
def _lcd_cases() -> list:
    """Short in-range LCD histories in which boolean flags (clear_row / clear_rows / display / backlight) and numeric
    arguments matter to what ends up in the cells and on the backlight pin."""
    from checks.c17 import C, G, txt
    both = (True, False)
    cases = []
    for f in both:
        cases.append({"g": G(8, 2), "h": [C("line", i=[0], t=[txt("abcdefgh")], s=["left"], b=[True]),
                                           C("write", i=[3, 0], t=[txt("XY")], s=["left"], b=[f]),
                                           C("line", i=[1], t=[txt("q")], s=["right"], b=[not f])]})
        cases.append({"g": G(8, 2), "h": [C("message", t=[txt("topline"), txt("bottom")], s=["left", "left"], b=[True, True, True]),
                                           C("message", t=[txt("t"), txt("b")], s=["center", "right"], b=[f, True, True])]})
        cases.append({"g": G(16, 2, "parallel", True), "h": [C("brightness", i=[120]), C("backlight", b=[f]), C("brightness", i=[40]),
                                                               C("display", b=[not f]), C("backlight", b=[not f]), C("display", b=[f])]})
        # the backlight on pin 0, spelled as a literal / as constant arithmetic (a pin number that folds to 0 is still a pin)
        # (one display per pin: the literal 0 in one case, `9 - 8` = pin 1 in its twin)
        g0 = dict(G(16, 2, "parallel", True), blspell="0" if f else "9 - 8")
        cases.append({"g": g0, "h": [C("brightness", i=[200]), C("backlight", b=[not f]), C("brightness", i=[90]), C("backlight", b=[f]), C("backlight", b=[True])]})
        cases.append({"g": G(16, 2, "i2c"), "h": [C("line", i=[0], t=[txt("hello")], s=["left"], b=[True]), C("display", b=[f]),
                                                   C("backlight", b=[not f]), C("write", i=[2, 1], t=[txt("zz")], s=["left"], b=[f])]})
    return cases


def lcd_part(run) -> None:
    from harness import lcd_text
    cases = _lcd_cases()
    jobs = [(cases, r) for r in fw_act.ROUTINGS]
    with cf.ProcessPoolExecutor(max_workers=min(NCPU, 8)) as ex:
        results = list(ex.map(_lcd_job, jobs, chunksize=1))
    traces, meta = [], {}
    for (_cs, r), res in zip(jobs, results):
        if "traces" not in res:
            run.count(f"lcd:{r}")
            if res["transpile"] == "reject":
                run.cov["rejected"] = run.cov.get("rejected", 0) + 1
            elif res["transpile"] == "accept":
                run.cov["compile_fail_see_C06"] = run.cov.get("compile_fail_see_C06", 0) + 1
            else:
                run.violation(f"lcd/{r}: transpiler {res['transpile']} ({res.get('cls')}: {res.get('msg')})", {"routing": r, "script": res["src"]})
            continue
        for k, (case, tr) in enumerate(zip(cases, res["traces"])):
            tid = f"lcd-{r}-{k}"
            run.count(f"lcd:{r}:{k}")
            if tr is None:
                run.violation(f"lcd/{r}: firmware trace lacks its call markers", {"routing": r, "g": case["g"], "history": case["h"], "script": res["src"]})
                continue
            traces.append({"id": tid, "side": "fw", "g": case["g"], "ev": tr})
            meta[tid] = (case, r, res["src"], res["inputs"])
    if not traces:
        return
    verdicts = validate("LCDTextTrace", "LCDTextTrace.cfg", traces, run, label="LCD flags x routings")
    for tid, v in verdicts.items():
        case, r, src, inputs = meta[tid]
        if not v["ok"]:
            ev = next(t for t in traces if t["id"] == tid)["ev"]
            e = ev[v["l"] - 1]
            run.violation(f"lcd: flag / argument routed as '{r}' reaches the display changed: call {v['l'] - 1} leaves the specification "
                          f"({v['clause']}): {json.dumps({k: e[k] for k in ('act', 'i', 'b', 'cell', 'pin')})[:260]}",
                          {"device": "lcd", "g": case["g"], "history": case["h"], "routing": r, "verdict": v, "script": src, "inputs": inputs})


def _lcd_job(args):
    from harness import lcd_text
    cases, routing = args
    return lcd_text.run_pack(cases, routing)
