"""C15 - firmware inputs: button edges, potentiometer reads, ultrasonic ranging behave as documented.

Decided by the specifications tla/Button.tla, tla/Pot.tla, tla/Ultrasonic.tla (step relations over abstract events,
written from the property statement):
 (1) TLC model-checks each specification exhaustively (ButtonMC: every sampled signal of length <= 11 x 0..3
     is_pressed() calls per pass, both sides; UltrasonicMC: every echo sequence over {timeout,1,580,29999} us of length
     <= 8 x gaps {0,10,59,60,61,200} ms x clock started or not; PotMC): the invariants the property names hold in every
     reachable state (ClicksEqualRisingEdges, NoClickAtStartup, StableWithinPass, SampledExactlyOncePerPass,
     HostAgreement; TriggerSpacing, AttemptsPerCall, ResultLaw; FreshReadPerCall).
 (2) TLC generates stimuli: all button signals of length <= 8 x call patterns (and random per-pass patterns), ADC
     sequences, ultrasonic call schedules with their echoes (exhaustive short ones + random walks).
 (3) Every stimulus is executed by the REAL code: the script shape is transpiled by /repo's working tree, compiled
     with g++ against the mock Arduino core and run with the stimulus as scripted digitalRead / analogRead /
     pulseIn / millis inputs; the host-side Button class is driven with the same per-pass signal.
 (4) The recorded traces are projected to abstract events and validated by TLC (ButtonTrace / PotTrace /
     UltrasonicTrace): total verdicts naming the failing clause; the host's click count enters the firmware trace and
     is compared by the spec ("host-click-count", whenever the signal starts released)."""
from __future__ import annotations

import concurrent.futures as cf
import copy
import json
import random
import threading

from harness import fw_inputs as FI
from harness.common import MachineryError
from harness.tlc import run_tlc
from harness.tracecheck import validate

LEVEL = "model_checking"
PROP = "C15"
KNOWN_TAGS = {"is-pressed-in-earlier-handler-stale", "button-declared-in-loop-startup-click", "ultrasonic-zero-clock-sentinel"}


# ------------------------------------------------------------------------------------------------ model checking
def _mc_jobs(quick: bool) -> list:
    inv = lambda names: "".join(f"INVARIANT {n}\n" for n in names)  # noqa: E731
    us_inv = inv(["TypeOK", "TriggerSpacing", "AttemptsPerCall", "ResultLaw", "GoodEchoEndsCall", "RetriesBeforeFallback", "EveryCallMeasures"])
    us = "SPECIFICATION Spec\nCONSTANTS\n  Gaps <- GapsDef\n  Echoes <- EchoesDef\n  T0s <- T0sDef\n  MaxEchoes = %d\n%s" + us_inv + \
         "PROPERTY TriggersOnlyInGuard\nCHECK_DEADLOCK FALSE\n"
    return [
        ("ButtonMC", "ButtonMC.cfg", "ButtonMC exhaustive: signals <= 11 samples x 0..3 is_pressed()/pass x {fw,host} x {handler,none}; "
         "6 invariants + 3 action properties", ["Boot", "PassStart", "Poll", "Click", "IsPressed"]),
        ("UltrasonicMC", us % (8, "VIEW View\n"), "UltrasonicMC exhaustive (clock abstracted by VIEW): <= 8 echoes over {timeout,1,580,29999}us x "
         "gaps {0,10,59,60,61,200}ms x clock {0,1000}; 7 invariants + 1 action property", ["Call", "Guard", "Trigger", "Echo", "Return", "Fallback"]),
        ("UltrasonicMC", us % (4 if quick else 8, ""), f"UltrasonicMC exhaustive on concrete clock values, <= {4 if quick else 8} echoes, same grids", []),
        ("ButtonSharedMC", "ButtonSharedMC.cfg", "ButtonSharedMC exhaustive: 3 buttons sharing one handler, every signal of 4 passes; handler runs = rising edges",
         ["Pass"]),
        ("PotMC", "SPECIFICATION Spec\nCONSTANTS\n  Adcs <- AdcsDef\n  Pins <- PinsDef\n  MaxCalls = %d\n" % (3 if quick else 5)
         + inv(["TypeOK", "FreshReadPerCall", "AtMostOneReadPerCall"]) + "PROPERTY ReturnsTheRead\nCHECK_DEADLOCK FALSE\n",
         "PotMC exhaustive: ADC sequences over {0,1,511,512,1022,1023} x 4 pins", ["Call", "Sample", "Read"]),
    ]


def _mc_one(job):
    mod, cfg, label, actions = job
    res = run_tlc(mod, cfg, workers=4, timeout=1500, coverage=bool(actions))
    return job, res


def _mc_finish(run, futs) -> None:
    for f in futs:
        (mod, _cfg, label, actions), res = f.result()
        if not res.ok:
            raise MachineryError(f"{mod}: spec-level check failed: {res.error} {res.violated}\n{res.stdout[-2500:]}")
        dead = [a for a in actions if res.coverage.get(a, (0, 1))[1] == 0]
        if dead:
            raise MachineryError(f"{mod}: actions never taken (vacuous model): {dead}")
        run.add_tlc(res, label)


# ------------------------------------------------------------------------------------------------ generation
def _gen(mod: str, cfg: str, label: str, simulate: int | None = None, depth: int = 100, seed: int = 1) -> tuple:
    if simulate is None:
        res = run_tlc(mod, cfg, workers=4, timeout=900)
    else:
        res = run_tlc(mod, cfg.replace("CONSTRAINT Emit\n", "CONSTRAINT EmitSim\n"), workers=1, timeout=900,
                      simulate=f"num={simulate}", depth=depth, seed=seed)
    if not res.ok or not res.json:
        raise MachineryError(f"{mod}: behaviour generation failed: {res.error} {res.violated}\n{res.stdout[-2000:]}")
    seen, out = set(), []
    for b in res.json:
        k = json.dumps(b, sort_keys=True)
        if k not in seen:
            seen.add(k)
            out.append(b)
    return out, res, label


def _button_cfg(patterns: str, maxlen: int) -> str:
    return (f"INIT GInit\nNEXT GNext\nCONSTANTS\n  MaxPasses = {maxlen - 1}\n  MaxReads = 3\n  MaxLen = {maxlen}\n  Patterns = {patterns}\n"
            "CONSTRAINT Emit\nINVARIANT CanonicalIsAllowed\nCHECK_DEADLOCK FALSE\n")


def _pot_cfg(grid: str, n: int) -> str:
    return f"INIT GInit\nNEXT GNext\nCONSTANTS\n  Adcs <- {grid}\n  Pins <- PinsDef\n  MaxCalls = {n}\n  MaxLen = {n}\nCONSTRAINT Emit\nCHECK_DEADLOCK FALSE\n"


def _us_cfg(gaps: str, echoes: str, maxcalls: int) -> str:
    return (f"INIT GInit\nNEXT GNext\nCONSTANTS\n  Gaps <- {gaps}\n  Echoes <- {echoes}\n  T0s <- T0sDef\n  MaxEchoes = 99\n"
            f"  Shapes <- ShapesDef\n  PassesSet <- PassesDef\n  MaxCalls = {maxcalls}\nCONSTRAINT Emit\nCHECK_DEADLOCK FALSE\n")


def _sample(xs: list, n: int, rnd: random.Random) -> list:
    return list(xs) if len(xs) <= n else rnd.sample(xs, n)


# ------------------------------------------------------------------------------------------------ cases
class Cases:
    """Firmware runs to perform: (shape key, passes, inputs) + how to cut the log into per-device traces."""

    def __init__(self):
        self.shapes: dict = {}
        self.runs: list = []          # {"shape", "passes", "inputs", "devs": [{"comp","id",...}], "stim"}

    def shape(self, key: str, meta: dict) -> str:
        self.shapes.setdefault(key, meta)
        return key

    def add(self, key: str, passes: int, inputs: str, devs: list, stim) -> None:
        self.runs.append({"shape": key, "passes": passes, "inputs": inputs, "devs": devs, "stim": stim})


def _host_clicks(sig: list) -> int:
    return FI.host_button(sig[1:])[1]


def plan_button(cases: Cases, uniform: list, free: list, quick: bool, rnd: random.Random) -> None:
    by_k: dict = {}
    for b in uniform:
        by_k.setdefault(b["k"], []).append(b)
    extra = 60 if quick else 10 ** 9
    plan = [(f"k{k}", by_k.get(k, [])) for k in range(4)]
    plan += [("fn", _sample(by_k.get(1, []), extra, rnd)), ("nohandler", _sample(by_k.get(1, []), extra, rnd)),
             ("positional", _sample(by_k.get(1, []), extra, rnd)), ("if", _sample(by_k.get(2, []), extra, rnd)),
             ("mixed", _sample(by_k.get(2, []), extra, rnd)), ("readme", _sample(by_k.get(0, []), extra, rnd)),
             ("fnwhile", _sample(by_k.get(2, []), extra, rnd))]
    for shape, behs in plan:
        key = cases.shape("button/" + shape, FI.button_shape(shape))
        meta = cases.shapes[key]
        for n, b in enumerate(behs):
            passes, inputs = FI.button_inputs(meta, [b["sig"]])
            cases.add(key, passes, inputs, [{"comp": "button", "id": f"fw-{shape}-{n}", "i": 0, "pin": 7, "decl": "setup",
                                             "handler": shape != "nohandler", "hc": _host_clicks(b["sig"])}], b)
    # run-time call patterns
    key = cases.shape("button/dyn", FI.button_shape("dyn"))
    for n, b in enumerate(free):
        passes, inputs = FI.button_inputs(cases.shapes[key], [b["sig"]], b["reads"])
        cases.add(key, passes, inputs, [{"comp": "button", "id": f"fw-dyn-{n}", "i": 0, "pin": 7, "decl": "setup", "handler": True,
                                         "hc": _host_clicks(b["sig"])}], b)
    # three buttons in one sketch: signals of equal length from three behaviours
    key = cases.shape("button/multi", FI.button_shape("multi"))
    meta = cases.shapes[key]
    k1 = [b for b in by_k.get(1, []) if len(b["sig"]) >= 5]
    rnd.shuffle(k1)
    groups: dict = {}
    for b in k1:
        groups.setdefault(len(b["sig"]), []).append(b)
    n = 0
    for ln, bs in sorted(groups.items()):
        for j in range(0, len(bs) - 2, 3):
            if quick and n >= 40:
                break
            trio = bs[j:j + 3]
            passes, inputs = FI.button_inputs(meta, [t["sig"] for t in trio])
            devs = [{"comp": "button", "id": f"fw-multi-{n}-b{bt['i']}", "i": bt["i"], "pin": bt["pin"], "decl": "setup",
                     "handler": bt["i"] != 2, "hc": _host_clicks(t["sig"])} for bt, t in zip(meta["buttons"], trio)]
            cases.add(key, passes, inputs, devs, {"sigs": [t["sig"] for t in trio]})
            n += 1


def plan_shared(cases: Cases, behs: list, quick: bool, rnd: random.Random) -> list:
    """Three buttons with ONE handler: signals from the TLC-generated behaviours, including trios in which two or three
    buttons carry the same signal (their rising edges fall into the same pass).  -> host reference traces"""
    key = cases.shape("button/shared", FI.button_shape("shared"))
    meta = cases.shapes[key]
    sigs = sorted({tuple(b["sig"]) for b in behs if len(b["sig"]) >= 4 and b["sig"][0] == 0}, key=lambda t: (len(t), t))
    groups: dict = {}
    for sg in sigs:
        groups.setdefault(len(sg), []).append(list(sg))
    hosts, n = [], 0
    for ln, ss in sorted(groups.items()):
        rnd.shuffle(ss)
        trios = []
        for j in range(0, len(ss) - 2, 3):
            a, b, c = ss[j:j + 3]
            trios += [[a, b, c], [a, a, b], [a, b, b], [a, a, a]]
        for trio in trios[: (24 if quick else 400)]:
            passes, inputs = FI.button_inputs(meta, trio)
            cases.add(key, passes, inputs, [{"comp": "shared", "id": f"fw-shared-{n}", "pins": [5, 6, 9]}], {"sigs": trio})
            hosts.append({"id": f"host-shared-{n}", "side": "host", "ev": FI.host_shared(trio)})
            n += 1
    return hosts


def plan_samepin(cases: Cases, behs: list, quick: bool) -> None:
    """Two Button objects on one pin: both see the same signal (also signals that start pressed)."""
    key = cases.shape("button/samepin", FI.button_shape("samepin"))
    meta = cases.shapes[key]
    sigs = sorted({tuple(b["sig"]) for b in behs if 3 <= len(b["sig"]) <= 7}, key=lambda t: (len(t), t))
    for n, sg in enumerate(sigs[: (40 if quick else 600)]):
        sg = list(sg)
        passes, inputs = FI.button_inputs(meta, [sg, sg])
        devs = [{"comp": "button", "id": f"fw-samepin-{n}-b{bt['i']}", "i": bt["i"], "pin": 7, "decl": "setup", "handler": True,
                 "hc": _host_clicks(sg), "nth": bt["nth"], "of": 2} for bt in meta["buttons"]]
        cases.add(key, passes, inputs, devs, {"sigs": [sg, sg]})


def plan_probes(cases: Cases) -> None:
    """Probe stratum: minimal stimuli that meet exactly one known trigger each (run on every invocation)."""
    key = cases.shape("button/xhandler", FI.button_shape("xhandler"))
    meta = cases.shapes[key]
    for n, (sa, sz) in enumerate([([0, 1, 0, 1], [0, 1, 0, 1]), ([0, 1, 1, 0, 1], [1, 0, 0, 1, 1]), ([0, 0, 1], [0, 0, 0])]):
        passes, inputs = FI.button_inputs(meta, [sa, sz])
        devs = [{"comp": "button", "id": f"probe-xhandler-{n}-a", "i": 0, "pin": 7, "decl": "setup", "handler": True, "hc": _host_clicks(sa)},
                {"comp": "button", "id": f"probe-xhandler-{n}-z", "i": 1, "pin": 5, "decl": "setup", "handler": False, "hc": -1}]
        cases.add(key, passes, inputs, devs, {"sigs": [sa, sz]})
    key = cases.shape("button/loopdecl", FI.button_shape("loopdecl"))
    meta = cases.shapes[key]
    for n, s in enumerate([[1, 1, 0, 1], [0, 1, 0], [1, 0, 1, 1]]):     # no setup sample: the signal starts with pass 1
        passes, inputs = FI.button_inputs(meta, [s])
        cases.add(key, passes, inputs, [{"comp": "button", "id": f"probe-loopdecl-{n}", "i": 0, "pin": 7, "decl": "loop", "handler": True, "hc": -1}],
                  {"sigs": [s]})


    # the clock-zero sentinel: one measurement in setup() at clock 0 with a short echo, the next 10 ms later
    meta = FI.us_shape(True, ())
    key = cases.shape("us/" + meta["shape"], meta)
    beh = {"t0": 0, "setup": True, "inpass": [], "passes": 1, "calls": [{"gap": 0, "echoes": [580]}, {"gap": 10, "echoes": [580]}]}
    passes, inputs = FI.us_inputs(meta, beh)
    cases.add(key, passes, inputs, [{"comp": "us", "id": "probe-us-sentinel", "i": 0, "trig": 8, "echo": 9, "t0": 0}], beh)


def plan_pot(cases: Cases, behs: list, quick: bool, rnd: random.Random) -> None:
    by_pin: dict = {}
    for b in behs:
        by_pin.setdefault(b["pin"], []).append(b)
    plan = [("direct1", 14, 4), ("setup", 14, 3), ("direct2", 15, 2), ("direct3", 17, 2), ("var", 19, 4),
            ("tuple2", 15, 2), ("tuple3fn", 15, 2), ("seqsum", 15, 2), ("discard", 15, 2), ("inbool", 15, 2), ("comp", 15, 2)]
    for shape, pin, passes in plan:
        key = cases.shape("pot/" + shape, FI.pot_shape(shape))
        meta = cases.shapes[key]
        bs = by_pin.get(pin, [])
        if shape == "setup":
            bs = _sample(bs, 40 if quick else 10 ** 9, rnd)
        for n, b in enumerate(bs):
            cases.add(key, passes, FI.pot_inputs(meta, [b["adc"]], passes),
                      [{"comp": "pot", "id": f"pot-{shape}-{n}", "i": 0, "pin": pin}], b)
    a, c = list(by_pin.get(15, [])), list(by_pin.get(17, []))
    rnd.shuffle(c)
    for shape in ("two", "rebound"):
        key = cases.shape("pot/" + shape, FI.pot_shape(shape))
        meta = cases.shapes[key]
        for n, (x, y) in enumerate(list(zip(a, c))[:40 if quick else 10 ** 9]):
            cases.add(key, 2, FI.pot_inputs(meta, [x["adc"], y["adc"]], 2),
                      [{"comp": "pot", "id": f"pot-{shape}-{n}-p0", "i": 0, "pin": 15}, {"comp": "pot", "id": f"pot-{shape}-{n}-p1", "i": 1, "pin": 17}],
                      {"adc": [x["adc"], y["adc"]]})


def plan_us(cases: Cases, behs: list, quick: bool, rnd: random.Random) -> None:
    for n, b in enumerate(behs):
        variant = "var" if n % 7 == 3 else "direct"
        meta = FI.us_shape(b["setup"], tuple(b["inpass"]), variant)
        key = cases.shape("us/" + meta["shape"], meta)
        passes, inputs = FI.us_inputs(cases.shapes[key], b)
        cases.add(key, passes, inputs, [{"comp": "us", "id": f"us-{n}", "i": 0, "trig": 8, "echo": 9, "t0": b["t0"]}], b)
        if b["t0"] == FI.ROLLOVER_T0 and n % 3 == 0:
            # the same schedule with the millisecond counter rolling over K ms into the run (the guard must be roll-over safe)
            k_ms = 3 + (n * 37) % 260
            ro = "".join(ln + "\n" for ln in inputs.splitlines() if not ln.startswith("t ")) + f"t -{k_ms}\n"
            cases.add(key, passes, ro, [{"comp": "us", "id": f"us-{n}-rollover", "i": 0, "trig": 8, "echo": 9, "t0": FI.ROLLOVER_T0}], dict(b, rollover_after_ms=k_ms))
    key = cases.shape("us/two", FI.us_two_shape())
    flat = [b for b in behs if not b["setup"] and not b["inpass"] and len(b["calls"]) >= 2]
    rnd.shuffle(flat)
    for n in range(0, min(len(flat) - 1, 60 if quick else 1500), 2):
        x, y = flat[n], flat[n + 1]
        ex = [e for c in x["calls"] for e in c["echoes"]] + [0]
        ey = [e for c in y["calls"] for e in c["echoes"]] + [580]
        inputs = (f"p 9 {' '.join(map(str, ex))}\np 11 {' '.join(map(str, ey))}\nx {' '.join(str(c['gap']) for c in x['calls'])}\nt {x['t0']}\n")
        devs = [{"comp": "us", "id": f"us-two-{n}-u{s}", "i": s, "trig": 8 + 2 * s, "echo": 9 + 2 * s, "t0": x["t0"]} for s in (0, 1)]
        cases.add(key, 2, inputs, devs, {"echoes": [ex, ey], "t0": x["t0"]})


# ------------------------------------------------------------------------------------------------ execute + validate
def project(dev: dict, events: list, inputs: str) -> dict:
    if dev["comp"] == "button":
        return {"id": dev["id"], "side": "fw", "handler": dev["handler"], "decl": dev["decl"],
                "ev": FI.project_button(events, dev["i"], dev["pin"], dev["hc"], dev.get("nth", 0), dev.get("of", 1))}
    if dev["comp"] == "pot":
        return {"id": dev["id"], "pin": dev["pin"], "ev": FI.project_pot(events, dev["i"])}
    if dev["comp"] == "shared":
        return {"id": dev["id"], "side": "fw", "ev": FI.project_shared(events, dev["pins"])}
    return {"id": dev["id"], "t0": dev["t0"], "ev": FI.project_us(events, inputs, dev["i"], dev["trig"], dev["echo"])}


MODS = {"button": "ButtonTrace", "pot": "PotTrace", "us": "UltrasonicTrace", "shared": "ButtonSharedTrace"}


def execute(cases: Cases, run) -> tuple:
    """Build every shape once, run every case, project.  -> ({comp: [trace]}, {trace id: (case, dev)})"""
    built = FI.build_all(cases.shapes)
    traces: dict = {"button": [], "pot": [], "us": [], "shared": []}
    where: dict = {}
    bad_shapes = {k: b for k, b in built.items() if b["status"] != "ok"}
    for k, b in bad_shapes.items():
        run.violation(f"script shape {k} is not accepted / does not compile ({b['status']}: {str(b.get('msg'))[:300]})",
                      {"component": k.split("/")[0], "shape": k, "script": cases.shapes[k]["src"], "build": b})
    todo = [c for c in cases.runs if c["shape"] not in bad_shapes]
    results = FI.run_all([(built[c["shape"]]["bin"], c["passes"], c["inputs"]) for c in todo])
    for c, r in zip(todo, results):
        for dev in c["devs"]:
            run.count(dev["id"])
            if r["rc"] != 0:
                run.violation(f"{dev['id']}: firmware run failed (rc={r['rc']} {r.get('stderr', '')[:200]})", _replay(cases, c, dev, None, None))
                continue
            t = project(dev, r["events"], c["inputs"])
            traces[dev["comp"]].append(t)
            where[dev["id"]] = (c, dev)
    return traces, where


def _replay(cases: Cases, c: dict, dev: dict, trace, verdict) -> dict:
    return {"property": PROP, "component": dev["comp"], "shape": c["shape"], "dev": dev, "passes": c["passes"], "inputs": c["inputs"],
            "stimulus": c["stim"], "script": cases.shapes[c["shape"]]["src"], "trace": trace, "verdict": verdict}


def judge(cases: Cases, traces: dict, where: dict, run, hosts: list) -> None:
    allv, lock = {}, threading.Lock()

    class Locked:            # validate() accounts TLC statistics on the run: serialise that
        def add_tlc(self, res, label=""):
            with lock:
                run.add_tlc(res, label)

        def traces(self, n):
            with lock:
                run.traces(n)

    batches = [(comp, ts + [h for h in hosts if h["id"].startswith("host-shared-") == (comp == "shared")] if comp in ("button", "shared") else ts)
               for comp, ts in traces.items()]
    with cf.ThreadPoolExecutor(max_workers=3) as ex:
        futs = [ex.submit(validate, MODS[comp], MODS[comp] + ".cfg", ts, Locked(), f"{comp} traces", 4000, 4) for comp, ts in batches if ts]
        for f in futs:
            allv.update(f.result())
    byid = {t["id"]: t for ts in traces.values() for t in ts}
    byid.update({t["id"]: t for t in hosts})
    for tid, v in sorted(allv.items(), key=lambda kv: (not kv[0].startswith("probe-"), kv[0])):     # probes first: their inputs are minimal
        t = byid[tid]
        if tid.startswith("host-"):
            if not v["ok"]:      # the reference leg disagrees with my specification: a spec gap, never a violation
                if run.spec_gaps < 5:
                    run.spec_gap(f"host Button leaves the Button spec at event {v['l']} ({v['clause']}): {json.dumps(t['ev'][:v['l']])[-200:]}")
                else:
                    run.spec_gaps += 1
            continue
        c, dev = where[tid]
        for k in v.get("known") or []:
            if k in run.known:
                run.violation(f"{dev['comp']} [{c['shape']}] known deviation {k} reproduced, e.g. inputs {c['inputs'].strip()!r}", {}, finding=k)
            else:
                run.violation(f"{dev['comp']} [{c['shape']}] deviation {k} (not listed as a known finding)", _replay(cases, c, dev, t["ev"], v))
        if not v["ok"]:
            ev = t["ev"][v["l"] - 1] if 0 < v["l"] <= len(t["ev"]) else None
            run.violation(f"{dev['comp']} [{c['shape']}] firmware leaves the specification at event {v['l']} ({v['clause']}): "
                          f"{json.dumps(ev)} inputs={c['inputs'].strip()!r}", _replay(cases, c, dev, t["ev"], v))


def observations(us_traces: list) -> dict:
    """Statistics the property leaves open (reported in the evidence, never a verdict): fall-backs after fewer than
    three attempts, back-off waits longer than 60 ms, calls that needed a retry."""
    early = longw = retried = calls = fallbacks = 0
    for t in us_traces:
        att = 0
        timeouts = 0
        for e in t["ev"]:
            if e["k"] == "call":
                att, timeouts = 0, 0
            elif e["k"] == "trig":
                att += 1
            elif e["k"] == "echo" and e["v"] == 0:
                timeouts += 1
            elif e["k"] == "wait" and e["v"] > 60:
                longw += 1
            elif e["k"] == "ret":
                calls += 1
                retried += 1 if att > 1 else 0
                if timeouts == att and att > 0:
                    fallbacks += 1
                    early += 1 if att < 3 else 0
    return {"measure_calls": calls, "calls_with_retry": retried, "fallbacks": fallbacks, "fallbacks_before_third_attempt": early,
            "guard_waits_over_60ms": longw}


def host_traces(sigs: list) -> list:
    out = []
    for n, sig in enumerate(sigs):
        for drv in ("provider", "set_pressed"):
            ev, _ = FI.host_button(sig[1:], drv)
            out.append({"id": f"host-{drv}-{n}", "side": "host", "handler": True, "decl": "setup", "ev": ev})
    return out


# ------------------------------------------------------------------------------------------------ entry points
def check(run) -> None:
    quick = run.tier == "quick"
    rnd = random.Random(run.seed)
    run.cov["rule"] = ("a case = one device in one firmware run (or one host Button run): a TLC-generated stimulus (sampled signal x call pattern; "
                       "ADC sequence x read pattern; call schedule x echo answers x start clock) executed by a compiled script shape and "
                       "validated by TLC; distinct = distinct (shape, stimulus); every button case has >= 1 sample, every pot/ultrasonic "
                       "case >= 1 call")
    run.assumptions += [
        "firmware semantics = emitted C++ compiled with host g++ against /verif/mock; millis() is the mock's virtual clock "
        "(advanced by delay, pulseIn (echo or timeout, whole ms), the scripted per-pass increment and the start value)",
        "a trigger = one HIGH pulse (>= 10 us) on the trig pin; trigger spacing is measured trigger to trigger on that clock; "
        "'once the clock is running' = the clock reads > 0 when the later trigger is issued",
        "'at most three attempts' is taken literally: falling back after fewer timed-out attempts is accepted, a fourth trigger is not",
        "distances compare within print precision: |printed*200 - echo_us*343| <= 102 + echo_us*343/100000 (units 1/20000 cm)",
        "the host Button is driven with the per-pass samples (one is_pressed() per pass; state_provider and set_pressed drivers); "
        "'starts released' = the first sample of the firmware's signal (taken in setup) is 0",
    ]
    pool = cf.ThreadPoolExecutor(max_workers=6)
    try:
        gens = {
            "uniform": pool.submit(_gen, "ButtonGen", _button_cfg("{0, 1, 2, 3}", 8), "ButtonGen BFS: all signals of length <= 8 x 4 uniform call patterns"),
            "free": pool.submit(_gen, "ButtonGen", _button_cfg("{9}", 10 if quick else 12), "ButtonGen -simulate: per-pass call patterns",
                                150 if quick else 2500, 120, run.seed),
            "pots": pool.submit(_gen, "PotGen", _pot_cfg("AdcsQ" if quick else "AdcsDef", 4), "PotGen BFS: ADC sequences of length 4 x 4 pins"),
            "us": pool.submit(_gen, "UltrasonicGen", _us_cfg("GapsQ", "EchoesQ", 2 if quick else 3), "UltrasonicGen BFS: short schedules, reduced grid"),
            "walks": pool.submit(_gen, "UltrasonicGen", _us_cfg("GapsDef", "EchoesDef", 12), "UltrasonicGen -simulate: schedules over the full grid",
                                 200 if quick else 3000, 250, run.seed),
        }
        mc = [pool.submit(_mc_one, j) for j in _mc_jobs(quick)]
        got = {}
        for name, f in gens.items():
            got[name], res, label = f.result()
            run.add_tlc(res, label)
        uniform, free, pots, walks = got["uniform"], got["free"], got["pots"], got["walks"]
        us = _sample(got["us"], 250 if quick else 4000, rnd)
        cases = Cases()
        plan_button(cases, uniform, free, quick, rnd)
        plan_probes(cases)
        shared_hosts = plan_shared(cases, uniform + free, quick, rnd)
        plan_samepin(cases, uniform + free, quick)
        plan_pot(cases, pots, quick, rnd)
        plan_us(cases, us + walks, quick, rnd)
        traces, where = execute(cases, run)
        sigs = sorted({tuple(b["sig"]) for b in uniform + free})
        hosts = host_traces([list(s) for s in sigs]) + shared_hosts
        for t in hosts:
            run.count(t["id"])
        judge(cases, traces, where, run, hosts)
        for comp in ("button", "pot", "us"):
            if traces[comp]:
                t = traces[comp][len(traces[comp]) // 2]
                c, dev = where[t["id"]]
                run.sample({"component": comp, "shape": c["shape"], "inputs": c["inputs"], "abstract_trace": t["ev"][:12]})
        run.cov["observations"] = observations(traces["us"])
        run.cov["firmware_builds"] = len(cases.shapes)
        run.cov["firmware_runs"] = len(cases.runs)
        run.cov["host_button_runs"] = len(hosts)
        _mc_finish(run, mc)
    finally:
        pool.shutdown(wait=True)


def _one(rep: dict) -> tuple:
    """Re-run one replay case against the current tree -> (trace, verdict)."""
    comp = rep["component"]
    if comp == "host-button":
        ev, _ = FI.host_button(rep["per_pass"], rep.get("driver", "provider"))
        t = {"id": "replay", "side": "host", "handler": True, "decl": "setup", "ev": ev}
        return t, validate("ButtonTrace", "ButtonTrace.cfg", [t])["replay"]
    built = FI.build_all({"x": {"src": rep["script"]}})["x"]
    if built["status"] != "ok":
        return None, {"ok": False, "l": 0, "clause": built["status"], "msg": built.get("msg")}
    r = FI.run_all([(built["bin"], rep["passes"], rep["inputs"])])[0]
    if r["rc"] != 0:
        return None, {"ok": False, "l": 0, "clause": f"firmware rc={r['rc']}"}
    dev = dict(rep["dev"])
    dev["id"] = "replay"
    t = project(dev, r["events"], rep["inputs"])
    return t, validate(MODS[dev["comp"]], MODS[dev["comp"]] + ".cfg", [t])["replay"]


def replay(path: str) -> int:
    rep = json.load(open(path))
    t, v = _one(rep)
    print(json.dumps(v))
    if t is not None:
        print(json.dumps(t["ev"]))
    from harness.result import load_known
    known = {e["id"] for e in load_known(PROP)}
    if not v["ok"] or any(k not in known for k in (v.get("known") or [])):
        print(f"VIOLATION property={PROP} replay={path}")
        return 1
    return 0


def selftest(seed: int) -> int:
    """Negative controls: accepted traces of the real code, then one logged field corrupted / one event dropped /
    one recorder channel removed -> each must be rejected at that event with the expected clause."""
    bad = 0

    def expect(mod, orig, variants):
        nonlocal bad
        ts = [dict(orig, id="orig")] + [dict(t, id=name) for name, t, _l, _c in variants]
        v = validate(mod, mod + ".cfg", ts)
        print(mod, "orig:", v["orig"]["ok"])
        bad += 0 if v["orig"]["ok"] else 1
        for name, _t, l, clause in variants:
            ok = (not v[name]["ok"]) and v[name]["l"] == l and v[name]["clause"] == clause
            print(f"  {name}: rejected={not v[name]['ok']} at {v[name]['l']} ({v[name]['clause']}) expected at {l} ({clause}) -> {'ok' if ok else 'MISSED'}")
            bad += 0 if ok else 1

    def mut(t, f):
        c = copy.deepcopy(t)
        f(c["ev"])
        return c

    # Button: firmware shape k2, signal 0 0 1 1 0 1
    shapes = {"b": FI.button_shape("k2"), "p": FI.pot_shape("direct2"), "u": FI.us_shape(False, (0,))}
    built = FI.build_all(shapes)
    if any(b["status"] != "ok" for b in built.values()):
        raise MachineryError(f"selftest shapes do not build: {built}")
    sig = [0, 0, 1, 1, 0, 1]
    passes, inputs = FI.button_inputs(shapes["b"], [sig])
    pin = 'a 15 5 900 17 3\n'
    beh = {"t0": 1000, "setup": False, "inpass": [0], "passes": 2,
           "calls": [{"gap": 0, "echoes": [580]}, {"gap": 0, "echoes": [0, 0, 0]}, {"gap": 10, "echoes": [0, 1200]}, {"gap": 0, "echoes": [29999]}]}
    upasses, uin = FI.us_inputs(shapes["u"], beh)
    rb, rp, ru = FI.run_all([(built["b"]["bin"], passes, inputs), (built["p"]["bin"], 2, pin), (built["u"]["bin"], upasses, uin)])
    hc = FI.host_button(sig[1:])[1]
    tb = {"side": "fw", "handler": True, "decl": "setup", "ev": FI.project_button(rb["events"], 0, 7, hc)}
    ev = tb["ev"]
    i_read = next(i for i, e in enumerate(ev) if e["k"] == "read" and e["v"] == 1)
    i_click = next(i for i, e in enumerate(ev) if e["k"] == "click")
    i_smp = next(i for i, e in enumerate(ev) if e["k"] == "sample" and i > 2)
    nxt = lambda es, i: next(j for j in range(i + 1, len(es)) if es[j]["k"] in ("pass", "sample", "end"))  # noqa: E731  (1-based, one event dropped)
    nodr = {"side": "fw", "handler": True, "decl": "setup", "ev": FI.project_button([e for e in rb["events"] if e.get("e") != "dr"], 0, 7, hc)}
    expect("ButtonTrace", tb, [
        ("read-flipped", mut(tb, lambda e: e[i_read].update(v=0)), i_read + 1, "read-differs-from-sample"),
        ("click-dropped", mut(tb, lambda e: e.pop(i_click)), nxt(ev, i_click), "missed-click"),
        ("click-doubled", mut(tb, lambda e: e.insert(i_click, dict(e[i_click]))), i_click + 2, "duplicate-click"),
        ("sample-doubled", mut(tb, lambda e: e.insert(i_smp, dict(e[i_smp]))), i_smp + 2, "sampled-twice-in-pass"),
        ("host-count-off", mut(tb, lambda e: e[-1].update(v=hc + 1)), len(ev), "host-click-count"),
        ("recorder-without-digitalRead", nodr, 3, "read-before-sample"),
    ])
    th = {"side": "host", "handler": True, "decl": "setup", "ev": FI.host_button([1, 1, 0, 1])[0]}
    expect("ButtonTrace", th, [("host-click-dropped", mut(th, lambda e: e.pop(2)), nxt(th["ev"], 2), "missed-click")])
    tp = {"pin": 15, "ev": FI.project_pot(rp["events"], 0)}
    expect("PotTrace", tp, [
        ("ret-changed", mut(tp, lambda e: e[2].update(v=e[2]["v"] + 1)), 3, "result-differs-from-read"),
        ("read-dropped", mut(tp, lambda e: e.pop(4)), 5, "no-fresh-read"),
        ("other-pin", mut(tp, lambda e: e[1].update(p=14)), 2, "read-of-another-pin"),
    ])
    tu = {"t0": 1000, "ev": FI.project_us(ru["events"], uin, 0, 8, 9)}
    uev = tu["ev"]
    i_ret = next(i for i, e in enumerate(uev) if e["k"] == "ret")
    trigs = [i for i, e in enumerate(uev) if e["k"] == "trig"]

    def early(e):            # the back-off wait before the second trigger is 5 ms too short
        w = max(i for i in range(trigs[1]) if e[i]["k"] == "wait")
        e[w]["v"] -= 5
        for x in e[w:]:
            x["t"] -= 5

    def fourth(e):
        j = trigs[3] + 2       # after the third timed-out echo of call 2
        e[j:j] = [dict(e[trigs[3]], t=e[j - 1]["t"] + 60), dict(e[trigs[3] + 1], t=e[j - 1]["t"] + 90)]

    expect("UltrasonicTrace", tu, [
        ("distance-off", mut(tu, lambda e: e[i_ret].update(v=e[i_ret]["v"] + 2)), i_ret + 1, "distance-law"),
        ("trigger-5ms-early", mut(tu, early), trigs[1] + 1, "retrigger-within-60ms"),
        ("fourth-attempt", mut(tu, fourth), trigs[3] + 3, "more-than-3-attempts"),
        ("fallback-changed", mut(tu, lambda e: e[[i for i, x in enumerate(e) if x["k"] == "ret"][1]].update(v=40000)),
         [i for i, x in enumerate(uev) if x["k"] == "ret"][1] + 1, "fallback-not-last-good"),
    ])
    print("selftest:", "ok" if bad == 0 else f"{bad} control(s) failed")
    return 1 if bad else 0
