"""C13 - board registry validation is exact; project files round-trip.

Registry half.  The registry (SUPPORTED_PLATFORMS of the code under test) is exported at check time and handed to TLC
(tla/Registry.tla).  TLC (1) evaluates the registry law - every board under exactly one platform - on it, (2) model-
checks the validation machine over (candidate platform names) x (candidate board names), (3) emits, per candidate
platform, the boards the specification accepts;  every pair is then put to the REAL validate_platform_board and the
recorded outcomes are validated by TLC (RegistryTrace): accept iff registered under exactly that platform, otherwise
ValueError.  Candidates = registered names + near-misses (case changes, added whitespace, prefixes, extensions, "").

Project half.  tla/Project.tla: abstract file system, Dedup (first-seen, no empties) and Sanitize (env name) with
their laws checked by TLC over all 2801 library lists (7 names, three of them with braces) of length <= 4 and every registered board id; TLC emits the
library lists;  the REAL write_project runs in a fresh sandbox per case (every board id, generated port strings, all
library lists, sources incl. non-ASCII / no trailing newline, four pre-states of the directory, rejected pairs) and
what is read back - bytes of src/main.cpp, platformio.ini through configparser.ConfigParser(interpolation=None),
listings before/after, everything touched outside the project directory - is validated by TLC (ProjectTrace)."""
from __future__ import annotations

import copy
import json
import random
import shutil

from harness import common, pio_rec
from harness.common import MachineryError
from harness.tlc import run_tlc, write_json
from harness.tracecheck import validate

LEVEL = "model_checking"

# ---------------------------------------------------------------------------------------------------------------
# candidate names
BOARD_MISS = ["swapcase", "upper", "lower", "lead-space", "trail-space", "trail-newline", "lead-tab", "prefix", "extend",
              "fullwidth", "dash-underscore", "suffix:@1", "suffix:#", "suffix:/", "suffix:.", "wrap:[%]", "suffix:;", "suffix:\x00"]


def near(name: str, how: str) -> str:
    if how == "swapcase":
        return name.swapcase()
    if how == "upper":
        return name.upper()
    if how == "lower":
        return name.lower()
    if how == "capitalize":
        return name.capitalize()
    if how == "lead-space":
        return " " + name
    if how == "trail-space":
        return name + " "
    if how == "trail-newline":
        return name + "\n"
    if how == "lead-tab":
        return "\t" + name
    if how == "prefix":
        return name[:-1]
    if how == "extend":
        return name + "x"
    if how == "fullwidth":                      # same glyphs, other code points
        return "".join(chr(ord(c) + 0xFEE0) if "!" <= c <= "~" else c for c in name)
    if how.startswith("suffix:"):               # the registered name followed by what other tools read as a version / variant / path part
        return name + how[len("suffix:"):]
    if how.startswith("wrap:"):                 # ... or wrapped in something
        return how[len("wrap:"):].replace("%", name)
    if how == "dash-underscore":
        return name.replace("-", "_") if "-" in name else name.replace("_", "-") if "_" in name else name + "_"
    raise ValueError(how)


def candidates(reg: dict, tier: str, seed: int) -> tuple[list[str], list[str], dict]:
    plats, origin = [], {}
    for p in sorted(reg):
        plats.append(p)
        for how in ("upper", "capitalize", "lead-space", "trail-space", "trail-newline", "prefix", "extend", "fullwidth",
                    "suffix:@5.0.0", "suffix:@", "suffix:@x", "suffix:#1", "suffix::latest", "suffix:/", "suffix:==1.0", "suffix:;", "suffix:.0", "suffix:-dev", "suffix:_old",
                    "suffix:\\", "suffix:?", "suffix:*", "suffix:\x00", "suffix:\r", "wrap:platformio/%", "wrap:[%]", "wrap:'%'", "wrap:%,%", "wrap:=%"):
            plats.append(near(p, how))
    plats += ["", "atmel", "avr", "espressif32", "atmelavr,atmelmegaavr"]
    boards = sorted({b for bs in reg.values() for b in bs})
    rnd = random.Random(seed)
    per = 2 if tier == "quick" else len(BOARD_MISS)
    out = list(boards)
    for i, b in enumerate(boards):
        hows = [BOARD_MISS[(2 * i + k) % len(BOARD_MISS)] for k in range(per)] if per < len(BOARD_MISS) else BOARD_MISS
        for how in hows:
            m = near(b, how)
            origin.setdefault(m, f"{how}({b})")
            out.append(m)
    out += ["", " ", "arduino", "Uno", "uno\x00", "uno,nano"]
    seen, ded = set(), []
    for x in plats:
        if x not in seen:
            seen.add(x)
            ded.append(x)
    plats = ded
    seen, ded = set(), []
    for x in out:
        if x not in seen:
            seen.add(x)
            ded.append(x)
    rnd.shuffle(ded)
    return plats, ded, origin


def reg_input(reg: dict, plats: list[str], boards: list[str]):
    obj = {"reg": [{"p": p, "boards": [{"id": b, "codes": pio_rec.codes(b)} for b in reg[p]]} for p in sorted(reg)],
           "plats": plats, "boards": boards}
    return write_json("registry.json", obj)


# ---------------------------------------------------------------------------------------------------------------
# registry half
class Background:
    """Run a TLC job in a thread while the real code is being exercised; errors surface at join()."""

    def __init__(self, fn, *a):
        import threading
        self.out, self.err = None, None

        def body():
            try:
                self.out = fn(*a)
            except BaseException as e:  # noqa: BLE001
                self.err = e
        self.t = threading.Thread(target=body)
        self.t.start()

    def join(self):
        self.t.join()
        if self.err is not None:
            raise self.err
        return self.out


def registry_mc(regfile):
    res = run_tlc("RegistryMC", "RegistryMC.cfg", env={"REG_FILE": str(regfile)}, workers=4, timeout=600)
    if not res.ok:
        raise MachineryError(f"RegistryMC failed: {res.error} {res.violated}\n{res.stdout[-2500:]}")
    facts = next((o for o in res.json if isinstance(o, dict) and "multi_owner" in o), None)
    if facts is None:
        raise MachineryError(f"RegistryMC printed no registry facts\n{res.stdout[-1500:]}")
    return res, facts


def registry_law(run, reg: dict, res, facts) -> None:
    run.add_tlc(res, "RegistryMC: validation machine over candidate platforms x candidate boards; registry law evaluated")
    run.cov["registry"] = {k: facts[k] for k in ("platforms", "boards", "pairs")}
    run.count("registry-law")
    if facts["multi_owner"] or facts["dup_platforms"]:
        run.violation(f"registry law broken: boards registered under more than one platform: {sorted(facts['multi_owner'])[:10]} "
                      f"duplicate platforms: {facts['dup_platforms']}", {"kind": "registry-law", "facts": facts})
    if facts["pairs"] != sum(len(v) for v in reg.values()):
        raise MachineryError("registry export and TLC disagree on the number of registered pairs")
    # the registry against the listing in the source text (read with ast, independent of how the module builds its sets): a board id
    # the source lists under a platform is registered for it - the real validate_platform_board accepts it - and nothing else is
    listing = pio_rec.source_listing()
    run.cov["source_listing"] = None if listing is None else {p: len(b) for p, b in listing.items()}
    if listing is not None:
        pio = pio_rec.pio_module()
        for plat, ids in sorted(listing.items()):
            for b in ids:
                run.count("listed-board-accepted")
                try:
                    pio.validate_platform_board(pio_rec.newstr(plat), pio_rec.newstr(b))
                except ValueError as e:
                    run.violation(f"board {b!r} is listed under platform {plat!r} in the source of the registry but validation rejects the pair: {str(e)[:120]}",
                                  {"kind": "listed-board-rejected", "platform": plat, "board": b})
            extra = sorted(set(reg.get(plat, [])) - set(ids))
            if extra:
                run.violation(f"boards registered for {plat!r} that its listing does not contain: {extra[:10]}",
                              {"kind": "registered-not-listed", "platform": plat, "boards": extra[:50]})


def registry_rows(run, regfile) -> list:
    gen = run_tlc("RegistryGen", "RegistryGen.cfg", env={"REG_FILE": str(regfile)}, workers=1, timeout=900).need_ok()
    rows = [o for o in gen.json if isinstance(o, dict) and "accept" in o]
    run.add_tlc(gen, "RegistryGen: accepted boards per candidate platform")
    return rows


def run_validations(run, rows: list[dict], plats: list[str], boards: list[str], origin: dict, reg: dict | None = None) -> list[dict]:
    if sorted(r["pi"] for r in rows) != list(range(1, len(plats) + 1)):
        raise MachineryError("RegistryGen did not emit one row per candidate platform")
    traces, chunk = [], 400
    n_accept = 0
    for pi, row in enumerate(sorted(rows, key=lambda r: r["pi"])):
        p = plats[row["pi"] - 1]
        acc = {boards[j - 1] for j in row["accept"]}
        evs = []
        for b in boards:
            out = pio_rec.validate_case(p, b)
            evs.append({"b": b, "out": out})
            run.count(("val", p, b), nontrivial=True)
            n_accept += (b in acc)
        for k in range(0, len(evs), chunk):
            traces.append({"id": f"validate/{pi}/{k // chunk}", "p": p, "ev": evs[k:k + chunk]})
    # every registered pair once more with the registry's own string objects (the loop above passes equal but distinct objects)
    for p, bs in sorted((reg or {}).items()):
        evs = [{"b": b, "out": pio_rec.validate_case(p, b, own=True)} for b in bs]
        for b in bs:
            run.count(("val-own", p, b), nontrivial=True)
        for k in range(0, len(evs), chunk):
            traces.append({"id": f"validate-own/{p}/{k // chunk}", "p": p, "ev": evs[k:k + chunk]})
    run.cov["validations"] = {"pairs": len(plats) * len(boards), "spec_accepts": n_accept, "candidate_platforms": len(plats),
                              "candidate_boards": len(boards)}
    run.sample({"validate": [plats[0], boards[0], traces[0]["ev"][0]["out"]], "near_miss_example": next(iter(origin.items()), None)})
    return traces


def validate_registry_traces(run, traces, regfile) -> dict:
    return validate("RegistryTrace", "RegistryTrace.cfg", traces, run, label="validate_platform_board", env={"REG_FILE": str(regfile)})


def judge_validations(run, traces: list[dict], verdicts: dict, origin: dict) -> None:
    for t in traces:
        v = verdicts[t["id"]]
        if not v["ok"]:
            e = t["ev"][v["l"] - 1]
            run.violation(f"validate_platform_board({t['p']!r}, {e['b']!r}) -> {e['out']}: {v['clause']}"
                          + (f" [{origin[e['b']]}]" if e["b"] in origin else ""),
                          {"kind": "validate", "platform": t["p"], "board": e["b"], "observed": e["out"], "clause": v["clause"]})


# ---------------------------------------------------------------------------------------------------------------
# project half
PORT_ALPHABET = list("abcXYZ0189/._-:%;#=[] ${}\\\"',@~()!&*+<>?^`|") + ["é", "ü", "ß", "端", "口", "€", "Ω", "ñ"]
PORTS_FIXED = ["COM3", "/dev/ttyACM0", "", "/dev/cu.usbmodem14101", "COM12", "%", "%%", "%(port)s", "100%", "${sysenv.PORT}", ";", "#",
               "x ; y", "x # y", "a;b", "a#b", "=", "a=b", "==", "[x]", "[env:evil]", "a  b", "端口3", "COM3;upload_speed=1", ":", "a: b",
               "rfc2217://host:4000?ign_set_control", "\\\\.\\COM10", "'COM3'", "\"COM3\"", "lib_deps", "x = y = z", "été", "-", "_"]
SOURCES = [("plain", "void setup() {}\nvoid loop() {}\n"), ("no-trailing-newline", "void setup() {}\nvoid loop() {}"),
           ("empty", ""), ("non-ascii", "// grüße – 温度 °C €\nvoid setup() { Serial.println(\"héllo\"); }\n"),
           ("crlf", "void setup() {}\r\nvoid loop() {}\r\n"), ("lone-cr", "a\rb"), ("trailing-blank", "x \n\n\n  \n"),
           ("ini-like", "[env:uno]\nplatform = x\n"), ("nul-and-bom", "\ufeffint a;\x00\n"), ("astral", "// \U0001F600 \U00010348\n"),
           ("long", "int x;\n" * 20000), ("percent", "printf(\"%d %s %%\");\n")]
PRES = ["absent", "empty", "stale", "nested", "twin"]


def gen_ports(n: int, seed: int) -> list[str]:
    rnd = random.Random(seed)
    out, seen = [], set()
    for p in PORTS_FIXED:
        if p not in seen:
            seen.add(p)
            out.append(p)
    while len(out) < n:
        k = rnd.randint(1, 14)
        s = "".join(rnd.choice(PORT_ALPHABET) for _ in range(k))
        if s != s.strip() or s in seen:      # leading / trailing whitespace cannot be carried by an INI value
            continue
        seen.add(s)
        out.append(s)
    return out


def project_cases(reg: dict, liblists: list[list[str]], plats: list[str], boards: list[str], tier: str, seed: int) -> list[dict]:
    rnd = random.Random(seed + 7)
    pairs = [(p, b) for p in sorted(reg) for b in reg[p]]
    ports = gen_ports(300 if tier == "quick" else 5000, seed)
    cases = []

    def add(kind, i, platform, board, port, libs, src, pre):
        cases.append({"id": f"{kind}/{i}", "kind": kind, "platform": platform, "board": board, "port": port, "libs": list(libs),
                      "srcname": src[0], "src": src[1], "pre": pre})

    for i, (p, b) in enumerate(pairs):                                   # every board id
        add("board", i, p, b, ports[i % 8], liblists[(i * 7) % len(liblists)], SOURCES[i % len(SOURCES)], PRES[i % len(PRES)])
    for i, port in enumerate(ports):                                     # every port string
        p, b = pairs[(i * 13) % len(pairs)]
        add("port", i, p, b, port, liblists[(i * 3) % len(liblists)], SOURCES[0], PRES[i % 2])
    for i, libs in enumerate(liblists):                                  # every library list
        p, b = pairs[(i * 5) % len(pairs)]
        add("libs", i, p, b, "COM3", libs, SOURCES[1], PRES[(i // 3) % len(PRES)])
    for i, src in enumerate(SOURCES):                                    # every source x every pre-state
        for j, pre in enumerate(PRES):
            add("source", i * len(PRES) + j, "atmelavr", "uno", "/dev/ttyACM0", ["Servo"], src, pre)
    # rejected pairs: near-miss names and boards of the other platform, in every pre-state
    bad = [(p, b) for p in plats[:6] for b in rnd.sample(boards, 6)] + \
          [(q, b) for p in sorted(reg) for q in sorted(reg) if q != p for b in rnd.sample(reg[p], 4)] + \
          [("atmelavr", "UNO"), ("Atmelavr", "uno"), ("atmelavr", " uno"), ("atmelavr ", "uno"), ("", ""), ("atmelavr", "")]
    for i, (p, b) in enumerate(bad):
        add("reject", i, p, b, ports[i % 8], liblists[i % len(liblists)], SOURCES[i % 3], PRES[i % len(PRES)])
    for i in range(200 if tier == "quick" else 6000):                    # random combinations
        p, b = rnd.choice(pairs)
        add("random", i, p, b, rnd.choice(ports), rnd.choice(liblists), rnd.choice(SOURCES[:10]), rnd.choice(PRES))
    return cases


def record_projects(cases: list[dict]) -> list[dict]:
    work = common.subdir("c13")
    traces = []
    sb = pio_rec.fresh(work / "sb")
    for i, c in enumerate(cases):
        rec = pio_rec.project_case(sb, c)
        if rec["observer_errors"]:
            raise MachineryError(f"file-system observer failed: {rec['observer_errors'][:3]}")
        del rec["observer_errors"]
        traces.append({"id": c["id"], "ev": [rec]})
    shutil.rmtree(work / "sb", ignore_errors=True)
    return traces


def project_mc(regfile):
    res = run_tlc("ProjectMC", "ProjectMC.cfg", env={"REG_FILE": str(regfile)}, workers=4, timeout=300)
    if not res.ok:
        raise MachineryError(f"ProjectMC failed: {res.error} {res.violated}\n{res.stdout[-2500:]}")
    return res


def project_gen(regfile):
    cfg = open(common.TLA / "ProjectGen.cfg").read()
    gen = run_tlc("ProjectGen", cfg, env={"REG_FILE": str(regfile)}, workers=1, timeout=600).need_ok()
    rows = [o for o in gen.json if isinstance(o, dict) and "libs" in o and "expect" in o]
    liblists = sorted((r["libs"] for r in rows), key=lambda q: (len(q), q))
    if len(liblists) != 2801:          # 7 names (three of them with braces), lists of length <= 4
        raise MachineryError(f"ProjectGen: expected 2801 library lists, got {len(liblists)}")
    return gen, liblists


def project_half(run, reg: dict, regfile, plats, boards, gen, liblists) -> None:
    env = {"REG_FILE": str(regfile)}
    run.add_tlc(gen, "ProjectGen: all library lists of length <= 4 over {Servo, LiquidCrystal, LiquidCrystal_I2C, ''}")
    cases = project_cases(reg, liblists, plats, boards, run.tier, run.seed)
    traces = record_projects(cases)
    verdicts = validate("ProjectTrace", "ProjectTrace.cfg", traces, run, label="write_project", env=env, chunk=3000)
    kinds = {}
    for c, t in zip(cases, traces):
        run.count(("proj", c["id"]))
        kinds[c["kind"]] = kinds.get(c["kind"], 0) + 1
        v = verdicts[c["id"]]
        if not v["ok"]:
            r = t["ev"][0]
            run.violation(f"write_project {c['id']} (platform={c['platform']!r} board={c['board']!r} port={c['port']!r} libs={c['libs']} "
                          f"src={c['srcname']} pre={c['pre']}): {v['clause']}; observed out={r['out']} ini={ {k: r['ini'][k] for k in ('sec', 'platform', 'board', 'framework', 'port', 'libs')} } "
                          f"outside={r['outside'][:3]}",
                          {"kind": "project", "case": c, "observed": r, "clause": v["clause"]})
    run.cov["project_cases"] = kinds
    ex = next((t for c, t in zip(cases, traces) if c["kind"] == "board" and "-" in c["board"]), traces[0])
    run.sample({"write_project": {k: ex["ev"][0][k] for k in ("platform", "board", "port", "libs", "out", "ini", "after", "outside")}})


def check(run) -> None:
    run.cov["rule"] = ("registry: a case = one (candidate platform, candidate board) pair put to the real validate_platform_board; candidates = "
                       "registered names + near-misses; every pair of the product is evaluated (distinct = distinct pair). project: a case = "
                       "one write_project call in a fresh sandbox read back; distinct = distinct (pair, port, library list, source, pre-state); "
                       "every registered board id, every generated port, every library list of length <= 4 and every source x pre-state occurs")
    run.assumptions += [
        "the registry is the SUPPORTED_PLATFORMS mapping of the code under test, exported when the check runs (a constant of the specification)",
        "names are atoms compared by string equality; env-name sanitising is specified over code points",
        "read-back reference parser: configparser.ConfigParser(interpolation=None); lib_deps = non-empty stripped lines of the option value",
        "port strings: printable, no line breaks, no leading/trailing whitespace (an INI value cannot carry it), length <= 14 (+ fixed list); "
        "PlatformIO's own parser additionally treats ' ;' / ' #' as inline comments and ${...} as interpolation - outside the property's reference parser",
        "POSIX file system (no newline translation); sources are valid Unicode text (no lone surrogates)"]
    reg = pio_rec.registry()
    plats, boards, origin = candidates(reg, run.tier, run.seed)
    regfile = reg_input(reg, plats, boards)
    bgs = [Background(registry_mc, regfile), Background(project_mc, regfile), Background(project_gen, regfile)]
    bg_reg, bg_proj, bg_libs = bgs
    try:
        rows = registry_rows(run, regfile)
        registry_law(run, reg, *bg_reg.join())
        vtraces = run_validations(run, rows, plats, boards, origin, reg)
        bg_val = Background(validate_registry_traces, run, vtraces, regfile)      # validated by TLC while projects are written
        bgs.append(bg_val)
        project_half(run, reg, regfile, plats, boards, *bg_libs.join())
        judge_validations(run, vtraces, bg_val.join(), origin)
    finally:
        for b in bgs:
            b.t.join()
    run.add_tlc(bg_proj.join(), "ProjectMC: Dedup laws over 2801 library lists, Sanitize laws over every registered id, "
                                "abstract file system machine (RoundTrip, OtherDirectoriesUntouched, RejectedWritesNothing, NoStaleState)")


def replay(path: str) -> int:
    r = json.load(open(path))
    reg = pio_rec.registry()
    if r["kind"] == "registry-law":
        regfile = reg_input(reg, sorted(reg), sorted({b for v in reg.values() for b in v}))
        res = run_tlc("RegistryMC", "RegistryMC.cfg", env={"REG_FILE": str(regfile)}, workers=4)
        facts = next(o for o in res.json if isinstance(o, dict) and "multi_owner" in o)
        print(json.dumps(facts))
        bad = bool(facts["multi_owner"] or facts["dup_platforms"])
    elif r["kind"] == "validate":
        regfile = reg_input(reg, [r["platform"]], [r["board"]])
        out = pio_rec.validate_case(r["platform"], r["board"])
        v = validate("RegistryTrace", "RegistryTrace.cfg", [{"id": "replay", "p": r["platform"], "ev": [{"b": r["board"], "out": out}]}],
                     env={"REG_FILE": str(regfile)})["replay"]
        print(out, json.dumps(v))
        bad = not v["ok"]
    else:
        regfile = reg_input(reg, [r["case"]["platform"]], [r["case"]["board"]])
        t = record_projects([r["case"]])[0]
        v = validate("ProjectTrace", "ProjectTrace.cfg", [t], env={"REG_FILE": str(regfile)})[t["id"]]
        print(json.dumps({k: t["ev"][0][k] for k in ("out", "ini", "after", "outside")}))
        print(json.dumps(v))
        bad = not v["ok"]
    if bad:
        print(f"VIOLATION property=C13 replay={path}")
    return 1 if bad else 0


def selftest(seed: int) -> int:
    """Negative controls: corrupt one recorded field of an accepted trace -> rejected with the named clause."""
    reg = pio_rec.registry()
    plats, boards, _ = candidates(reg, "quick", seed)
    regfile = reg_input(reg, plats, boards)
    env = {"REG_FILE": str(regfile)}
    bad = 0
    # registry
    evs = [{"b": b, "out": pio_rec.validate_case("atmelavr", b)} for b in ["uno", "UNO", "nano_every", "nope"]]
    good = {"id": "good", "p": "atmelavr", "ev": evs}
    ctrl = []
    for i, (label, out, clause) in enumerate([("reject-registered", "ValueError", "registered-pair-rejected"),
                                              ("accept-case-variant", "accept", "accepted:board-not-registered"),
                                              ("accept-other-platform", "accept", "accepted:board-belongs-to-another-platform"),
                                              ("reject-with-KeyError", "KeyError", "rejection-is-not-a-ValueError")]):
        m = copy.deepcopy(good)
        m["id"] = label
        m["ev"][i]["out"] = out
        ctrl.append((m, i + 1, clause))
    m = {"id": "accept-unknown-platform", "p": "Atmelavr", "ev": [{"b": "uno", "out": "accept"}]}
    ctrl.append((m, 1, "accepted:platform-not-registered"))
    v = validate("RegistryTrace", "RegistryTrace.cfg", [good] + [c[0] for c in ctrl], env=env)
    print("registry original:", v["good"])
    bad += not v["good"]["ok"]
    for m, at, clause in ctrl:
        r = v[m["id"]]
        ok = (not r["ok"]) and r["l"] == at and r["clause"] == clause
        print("ok  " if ok else "FAIL", m["id"], "->", r["l"], r["clause"])
        bad += not ok
    # project
    base = {"id": "good", "kind": "selftest", "platform": "atmelavr", "board": "digispark-pro", "port": "/dev/tty%d ;x", "srcname": "s",
            "libs": ["Servo", "", "LiquidCrystal", "Servo"], "src": "héllo\nno newline", "pre": "stale"}
    rej = dict(base, id="good-reject", board="Digispark-Pro", pre="empty")
    tg, tr = record_projects([base, rej])

    def mut(t, label, f):
        m = copy.deepcopy(t)
        m["id"] = label
        f(m["ev"][0])
        return m

    pc = [
        (mut(tg, "main-differs", lambda e: e.update(main="0" * 16)), "main.cpp-not-verbatim"),
        (mut(tg, "port-escaped", lambda e: e["ini"].update(port=e["ini"]["port"].replace("%", "%%"))), "upload_port"),
        (mut(tg, "libs-reordered", lambda e: e["ini"].update(libs=["LiquidCrystal", "Servo"])), "lib_deps:order"),
        (mut(tg, "libs-duplicate", lambda e: e["ini"].update(libs=["Servo", "LiquidCrystal", "Servo"])), "lib_deps:duplicates"),
        (mut(tg, "libs-missing", lambda e: e["ini"].update(libs=["Servo"])), "lib_deps:set"),
        (mut(tg, "env-unsanitised", lambda e: e["ini"].update(envcodes=pio_rec.codes("digispark-pro"))), "environment-name"),
        (mut(tg, "second-section", lambda e: e["ini"].update(nsec=2)), "not-exactly-one-section"),
        (mut(tg, "framework", lambda e: e["ini"].update(framework="mbed")), "framework"),
        (mut(tg, "board-case", lambda e: e["ini"].update(board="Digispark-pro")), "board"),
        (mut(tg, "extra-option", lambda e: e["ini"].update(keys=e["ini"]["keys"] + ["upload_speed"])), "extra-or-missing-option"),
        (mut(tg, "outside", lambda e: e.update(outside=["open-w:/tmp/x"])), "touched-outside-project-directory"),
        (mut(tr, "rejected-but-wrote", lambda e: e.update(after=e["after"] + ["src=dir"])), "rejected-call-wrote-files"),
        (mut(tr, "rejected-accepted", lambda e: e.update(out="ok")), "accepted:board-not-registered"),
    ]
    v = validate("ProjectTrace", "ProjectTrace.cfg", [tg, tr] + [c[0] for c in pc], env=env)
    print("project originals:", v["good"], v["good-reject"])
    bad += (not v["good"]["ok"]) + (not v["good-reject"]["ok"])
    for m, clause in pc:
        r = v[m["id"]]
        ok = (not r["ok"]) and r["clause"] == clause
        print("ok  " if ok else "FAIL", m["id"], "->", r["l"], r["clause"])
        bad += not ok
    return 1 if bad else 0
