"""C09 - generated firmware is memory-safe and does not leak across loop() passes.

Decided by: the heap law (tla/Heap.tla: delete[] only of live blocks, no sanitizer report, heap constant from one pass
to the next whenever the Python program's live data is) as a monitor, with the Python side of the law - which
histories are free of IndexError / ValueError and how much list data is live after every pass - computed by the Lang
specification.  TLC enumerates list / string operation histories (HeapGen: 18 operations, length <= 2 or 3, x three
placements relative to the main loop); each well-defined one runs as an AddressSanitizer + UBSan build of the
firmware with allocation tracing for 4 passes, and TLC validates the alloc/free/pass/memerr trace (HeapTrace).
The same programs' serial output is judged against Lang (a wrong value read from a stale buffer is a C01 matter)."""
from __future__ import annotations

import concurrent.futures as cf
import json
import random

from harness import fw, heap, lang, langcheck
from harness.common import NCPU, MachineryError
from harness.lang import *  # noqa: F401,F403
from harness.lang import PROG
from harness.langcheck import Strata
from harness.tlc import run_tlc
from harness.tracecheck import validate

LEVEL = "model_checking"

PROBES = {
    "list-created-in-loop-leaks": [
        PROG([], [ASSIGN("a", LIST(I(1), I(2), I(3))), WRITE(INDEX(V("a"), I(0)))], npass=4, pid="probe-loop-list"),
        PROG([], [ASSIGN("a", COMP("j", I(3), V("j"))), WRITE(CALL("len", V("a")))], npass=4, pid="probe-loop-comp")],
    "list-alias-shallow-copy": [
        PROG([ASSIGN("a", LIST(I(1), I(2), I(3))), ASSIGN("b", V("a")), ASSIGN("a", V("b")), WRITE(INDEX(V("a"), I(0)))], [WRITE(S("t"))], npass=2, pid="probe-alias-reassign"),
        PROG([ASSIGN("a", LIST(I(1), I(2), I(3))), ASSIGN("b", V("a")), APPEND("a", I(4)), WRITE(INDEX(V("b"), I(0)))], [WRITE(S("t"))], npass=2, pid="probe-alias-append")],
}


RAW_HEADER = ("from Reduino import target\nfrom Reduino.Communication import SerialMonitor\nfrom Reduino.Utils import sleep\n"
              'target("COM3", upload=False)\nmon = SerialMonitor(9600)\n')
# Scripts outside the Lang grammar (range() with start/stop/step in comprehensions, empty list displays in tuple assignments).
# Each keeps the amount of live Python list data the same at every pass boundary, so the pass-leak law applies with a constant
# premise; the printed values are compared with CPython's.
RAW_SCRIPTS = {
    "raw-comp-negative-strides": "xs = [i for i in range(10, 0, -2)]\nmon.write(xs[4])\nmon.write(xs[0])\nwhile True:\n    ys = [i * 2 for i in range(7, 0, -3)]\n"
                                 "    mon.write(ys[2])\n    zs = [i for i in range(3, 0, -5)]\n    mon.write(zs[0])\n    ws = [i for i in range(9, -1, -4)]\n    mon.write(ws[2] + ws[0])\n",
    "raw-comp-positive-strides": "xs = [i for i in range(2, 11, 4)]\nmon.write(xs[2])\nwhile True:\n    ys = [i + 1 for i in range(1, 8, 3)]\n    mon.write(ys[2] + ys[0])\n"
                                 "    us = [i for i in range(0, 7, 7)]\n    mon.write(us[0])\n    vs = [i for i in range(5, 6)]\n    mon.write(vs[0])\n",
    "raw-tuple-reset-to-empty": "samples = [1]\ncount = 0\nwhile True:\n    samples.append(7)\n    samples.append(8)\n    mon.write(samples[-1] + count)\n    samples, count = [], count + 1\n",
    "raw-tuple-refill-from-literals": "a = [1, 2]\nb = [3]\nwhile True:\n    a.append(5)\n    b.append(6)\n    mon.write(a[-1] + b[-1])\n    a, b = [1, 2], [3]\n",
    # lists that grow past 255 elements (by a comprehension, by appends), then are copied / re-assigned / passed on and read at the far end
    "raw-long-lists": "def last(xs):\n    return xs[-1]\nbig = [k for k in range(300)]\nmon.write(big[299])\nwhile True:\n    window = [k * 2 for k in range(300)]\n    dup = window\n"
                      "    dup.append(7)\n    mon.write(dup[299] + dup[300])\n    mon.write(last(dup))\n    trace = [0]\n    for k in range(259):\n        trace.append(k)\n"
                      "    mon.write(trace[259] + trace[100])\n    trace.remove(0)\n    mon.write(trace[-1] + trace[255])\n    both = trace\n    both.append(5)\n    mon.write(both[259] + both[-1])\n",
    # a helper that only reads its list parameter while it re-binds the global the caller passed: the parameter keeps the OLD list
    "raw-param-outlives-global": "hist = [1, 2, 3, 4]\ndef peek(xs, n):\n    global hist\n    hist = [9, 9, 9, 9]\n    return xs[n - 1]\ndef rebind_then_sum(xs):\n    global hist\n"
                                 "    hist = [7, 7, 7, 7]\n    t = 0\n    for q in range(len(xs)):\n        t += xs[q]\n    return t\nwhile True:\n    hist = [1, 2, 3, 4]\n"
                                 "    mon.write(peek(hist, 4))\n    mon.write(hist[0])\n    hist = [5, 6, 7, 8]\n    mon.write(rebind_then_sum(hist))\n    mon.write(hist[1])\n",
    # helpers that return a LOCAL list whose name is also a file-scope variable; negative subscripts of temporaries (a helper's
    # result, a comprehension, a list display)
    "raw-returned-local-shadows-global": "out = [0, 0]\nacc = [1]\ndef pair(n):\n    out = [n]\n    out.append(n + 1)\n    return out\ndef grow(n):\n    acc = [n, n]\n    acc.append(n * 2)\n    return acc\n"
                                         "while True:\n    p = pair(3)\n    mon.write(p[0] + p[1])\n    q = grow(2)\n    mon.write(q[2] + out[0] + acc[0])\n    mon.write(pair(5)[1])\n",
    "raw-negative-index-of-temporaries": "def pair(n):\n    return [n, n + 1, n + 2]\nwhile True:\n    last = pair(4)[-1]\n    mon.write(last)\n    sq = [i * i for i in range(4)][-2]\n    mon.write(sq)\n"
                                         "    mon.write([7, 8, 9][-3])\n    mon.write(pair(1)[-2] + pair(2)[0])\n",
    # sliding-window bounds `len(xs) - k` over a list that becomes shorter than the window (the bound is negative in Python: no iteration)
    "raw-window-over-shrinking-list": "q = [9, 8, 7, 6]\ndef pairs(xs):\n    t = 0\n    for k in range(len(xs) - 2):\n        t += xs[k] * xs[k + 2]\n    return t\ndef steps(xs):\n    i = 0\n"
                                      "    while i < len(xs) - 3:\n        i += 1\n    return i\ndef drop_first(xs):\n    if len(xs) - 1 >= 0:\n        return xs[0]\n    return 0\n"
                                      "while True:\n    mon.write(pairs(q))\n    q.remove(drop_first(q))\n    mon.write(pairs(q) + steps(q))\n    q.remove(drop_first(q))\n    mon.write(pairs(q) + steps(q))\n"
                                      "    q.remove(drop_first(q))\n    mon.write(pairs(q) + steps(q))\n    q.append(8)\n    q.append(7)\n    q.append(6)\n",
    # an already declared list is re-assigned from a list whose length the parser tracks as equal, although at run time it is longer
    # (an append in a branch that is not taken is counted all the same): the re-assigned name holds all of the source's elements
    "raw-reassign-after-untaken-append": "a = [1, 2, 3]\nb = [4, 5, 6, 7]\nn = 0\nwhile True:\n    if n > 1000:\n        a.append(n)\n    a = b\n    mon.write(a[3] + a[0])\n    mon.write(len(b))\n",
    "raw-reassign-literal-after-untaken-remove": "c = [1, 2, 3, 4]\nn = 0\nwhile True:\n    if n > 1000:\n        c.remove(4)\n    c = [9, 8, 7]\n    mon.write(c[2] + c[0])\n    c = [1, 2, 3]\n    mon.write(c[1])\n",
    # a helper builds a local list from constants on EVERY call and changes it (a fresh list each time, as in Python)
    "raw-helper-local-literal-mutated": "def tail(v):\n    w = [5, 7, 9]\n    w.remove(w[0])\n    return w[1] + v\ndef grow(v):\n    g = [1, 2]\n    g.append(v)\n    return g[2] + g[0]\n"
                                        "def table(k):\n    t = [10, 20, 30]\n    return t[k]\nwhile True:\n    mon.write(tail(1))\n    mon.write(grow(4))\n    mon.write(tail(2) + table(2))\n    mon.write(grow(6))\n",
    "raw-reassign-then-grow-and-shrink": "buf = [4, 5, 6]\nwhile True:\n    buf = [9, 8, 7]\n    buf.append(1)\n    buf.append(2)\n    mon.write(buf[0] + buf[4])\n    buf.remove(1)\n    buf.remove(2)\n",
}


def _raw_job(item):
    name, body = item
    src = RAW_HEADER + body
    r = fw.run_script({"src": src, "passes": 4, "inputs": "h 1\n", "san": True})
    py = lang.run_cpython(src, 4, [])
    return name, src, r, py


def raw_part(run) -> None:
    fw.ensure_runtime(True)
    with cf.ProcessPoolExecutor(max_workers=min(NCPU, len(RAW_SCRIPTS))) as ex:
        outs = list(ex.map(_raw_job, sorted(RAW_SCRIPTS.items())))
    traces, meta = [], {}
    for name, src, r, py in outs:
        run.count("raw:" + name)
        if r["transpile"] != "accept" or r.get("compile") != "ok":
            run.cov.setdefault("raw_not_run", []).append(f"{name}: {r['transpile']} {r.get('msg') or ''} {r.get('compile') or ''}")
            run.notes.append(f"raw list script {name} did not run ({r['transpile']} {r.get('msg') or ''} {r.get('compile') or ''}): nothing was judged on it")
            continue
        got = [e.get("v") for e in r.get("events", []) if e.get("e") == "w"]
        want = [t["toks"][0]["n"] for t in py.get("ev", []) if t.get("e") == "w" and t.get("toks")] if isinstance(py, dict) else None
        if want is not None and py.get("status", "ok") == "ok" and got != want:
            run.violation(f"{name}: list program prints {got[:12]}, CPython prints {want[:12]}", {"raw": name, "script": src})
        traces.append({"id": name, "py": [0] * 8, "ev": heap.project(r["events"], r.get("memerr"))})
        meta[name] = src
    if traces:
        v = validate("HeapTrace", "HeapTrace.cfg", traces, run, label="raw list scripts")
        for t in traces:
            if not v[t["id"]]["ok"]:
                run.violation(f"{t['id']}: heap law broken at event {v[t['id']]['l']} ({v[t['id']]['clause']}): {meta[t['id']][len(RAW_HEADER):][:200]!r}",
                              {"raw": t["id"], "script": meta[t["id"]], "verdict": v[t["id"]], "events": t["ev"][:40]})


def _job(p):
    src = lang.render(p)
    inputs = "h 1\n" + (("a 14 " + " ".join(map(str, p["ain"])) + "\n") if p["ain"] else "")
    r = fw.run_script({"src": src, "passes": p["npass"], "inputs": inputs, "san": True})
    return p["id"], src, r


def run_progs(run, progs: list, lv: dict) -> dict:
    """-> {id: {"status": reject|compile_fail|ok, "verdict": {...}, "src":...}}"""
    fw.ensure_runtime(True)
    with cf.ProcessPoolExecutor(max_workers=NCPU) as ex:
        outs = list(ex.map(_job, progs, chunksize=2))
    res, traces = {}, []
    for pid, src, r in outs:
        if r["transpile"] != "accept":
            res[pid] = {"status": "reject" if r["transpile"] == "reject" else "internal", "src": src}
        elif r.get("compile") != "ok":
            res[pid] = {"status": "compile_fail", "src": src, "msg": (r.get("stderr") or "")[-300:]}
        else:
            res[pid] = {"status": "ok", "src": src, "stderr": (r.get("stderr") or "")[:600]}
            traces.append({"id": pid, "py": lv[pid], "ev": heap.project(r["events"], r.get("memerr"))})
    if traces:
        v = validate("HeapTrace", "HeapTrace.cfg", traces, run, label="heap traces")
        for t in traces:
            res[t["id"]]["verdict"] = v[t["id"]]
            res[t["id"]]["events"] = t["ev"][:40]
    return res


def check(run) -> None:
    quick = run.tier == "quick"
    run.cov["rule"] = ("a case = one list/str operation history x placement whose Python execution is free of IndexError/ValueError (decided by "
                       "the Lang spec), run as an ASan+UBSan firmware for 4 passes; distinct = distinct (history, placement); non-trivial = "
                       "allocates at least one list or string")
    run.assumptions += ["heap = operator new[]/delete[] of the emitted list helpers (interposed by the mock runtime); Arduino String buffers are "
                        "std::string in the mock and are covered by the sanitizer only",
                        "live Python data = elements of lists reachable from global names after each pass (Lang!PyLive)"]
    gen = run_tlc("HeapGen", "INIT Init\nNEXT Next\nCONSTANT MaxLen = %d\nCONSTRAINT Emit\nCHECK_DEADLOCK FALSE\n" % (2 if quick else 3), workers=4, timeout=900)
    if not gen.ok or not gen.json:
        raise MachineryError(f"HeapGen: {gen.error}\n{gen.stdout[-1500:]}")
    run.add_tlc(gen, "HeapGen history enumeration")
    cases = sorted(gen.json, key=lambda c: json.dumps(c, sort_keys=True))
    progs, cases_of = [], {}
    for n, c in enumerate(cases):
        p = heap.build(c, n)
        if p:
            progs.append(p)
            cases_of[p["id"]] = c
    rnd = random.Random(run.seed)
    if len(progs) > (1400 if quick else 9000):
        progs = rnd.sample(progs, 1400 if quick else 9000)
    st = Strata(run, "C09")
    clean = st.split(progs, "heap histories")
    if quick and len(clean) > 240:
        # every single-operation history is always run; longer ones are sampled
        n2i = {p["id"]: i for i, p in enumerate(progs)}
        short = [p for p in clean if len(cases_of[p["id"]]["ops"]) == 1]
        rest = [p for p in clean if len(cases_of[p["id"]]["ops"]) > 1]
        clean = short + rnd.sample(rest, min(len(rest), 240 - len(short)))
    ev = lang.spec_eval(clean + [p for ps in PROBES.values() for p in ps], run, "live data per pass")
    lv = live_data(ev)
    res = run_progs(run, clean, lv)
    counts: dict = {}
    for p in clean:
        r = res[p["id"]]
        run.count("heap:" + p["id"])
        k = r["status"] if r["status"] != "ok" else ("ok" if r["verdict"]["ok"] else "violation")
        counts[k] = counts.get(k, 0) + 1
        if k == "violation":
            run.violation(f"{p['id']}: heap law broken at event {r['verdict']['l']} ({r['verdict']['clause']}): {langcheck.body_of(r['src'])[:200]!r}",
                          {"program": p, "script": r["src"], "verdict": r["verdict"], "events": r.get("events"), "stderr": r.get("stderr")})
    if clean:
        run.sample({"script": langcheck.body_of(res[clean[0]["id"]]["src"]), "py_live_per_pass": lv[clean[0]["id"]],
                    "events": res[clean[0]["id"]].get("events", [])[:8]})
    # ---- the same programs' values (three-way), without the sanitizer
    same_values = [p for p in clean if "list-alias-mutation" not in ev[p["id"]]["feat"]]     # aliasing changes values (C01's finding), not memory safety
    vals = lang.three_way(same_values[: (80 if quick else 600)], run, "values of heap programs")
    for pid, r3 in vals.items():
        if langcheck.outcome(r3) in ("mismatch", "run_fail"):
            run.violation(f"{pid}: list/str program prints a wrong value: {langcheck.describe(pid, r3)}", langcheck.replay_of({"id": pid}, r3))
    raw_part(run)
    # ---- probes of the known findings
    for fid, ps in PROBES.items():
        pres = run_progs(run, ps, lv)
        for p in ps:
            r = pres[p["id"]]
            run.count("probe:" + p["id"])
            sig = {"status": r["status"], "clause": (r.get("verdict") or {}).get("clause", "")}
            if sig["status"] == "ok" and sig["clause"] == "":
                continue
            listed = (run.known.get(fid) or {}).get("probes", {}).get(p["id"])
            if listed == sig:
                run.violation(f"{fid} ({p['id']}): {sig}", {}, finding=fid)
            else:
                run.violation(f"probe {p['id']} of {fid} fails differently from the recorded finding: {sig} (recorded {listed})",
                              {"program": p, "script": r["src"], "verdict": r.get("verdict")})
    run.cov["outcomes"] = counts
    run.cov["probe_stratum_candidates"] = {k: len(v) for k, v in st.probe.items()}


def live_data(ev: dict) -> dict:
    """Live Python data per pass, as the pass-leak law needs it."""
    lv = {pid: v["lv"] for pid, v in ev.items()}
    for pid, v in ev.items():
        if "list-alias-mutation" in v["feat"]:
            # Python mutates ONE list through two names, the firmware two copies: the amount of live Python data says nothing
            # about the firmware's heap, so the pass-leak law (equal Python data => equal heap) is given a premise that never
            # holds; ownership, double frees and sanitizer reports are still judged
            lv[pid] = list(range(len(v["lv"])))
    return lv


def replay(path: str) -> int:
    r = json.load(open(path))
    if "raw" in r:
        from harness.result import Run
        rr = Run("C09", "quick", 1)
        global RAW_SCRIPTS
        RAW_SCRIPTS = {r["raw"]: r["script"][len(RAW_HEADER):]}
        raw_part(rr)
        print(json.dumps({"violations": len(rr.violations)}))
        if rr.violations:
            print(f"VIOLATION property=C09 replay={path}")
            return 1
        return 0
    p = r["program"]
    lv = live_data(lang.spec_eval([p]))
    from harness.result import Run
    res = run_progs(Run("C09", "quick", 1), [p], lv)[p["id"]]
    print(json.dumps({"status": res["status"], "verdict": res.get("verdict")}))
    if res["status"] == "ok" and not res["verdict"]["ok"]:
        print(f"VIOLATION property=C09 replay={path}")
        return 1
    return 0


def selftest(seed: int) -> int:
    """Negative controls on a conforming trace: drop one free (leak), duplicate one free (double free), append a
    sanitizer report - each must be rejected with the matching clause."""
    p = PROG([ASSIGN("a", LIST(I(1), I(2), I(3)))], [APPEND("a", I(4)), REMOVE("a", I(4)), WRITE(CALL("len", V("a")))], npass=4, pid="st")
    lv = lang.spec_eval([p])["st"]["lv"]
    _pid, _src, r = _job(p)
    ev = heap.project(r["events"], r.get("memerr"))
    import copy
    frees = [i for i, e in enumerate(ev) if e["e"] == "free"]
    leak = copy.deepcopy(ev); del leak[frees[-1]]
    for e in leak:
        pass
    dbl = copy.deepcopy(ev); dbl.insert(frees[0] + 1, dbl[frees[0]])
    mem = copy.deepcopy(ev) + [{"e": "memerr", "k": "heap-buffer-overflow"}]
    v = validate("HeapTrace", "HeapTrace.cfg", [{"id": "orig", "py": lv, "ev": ev}, {"id": "leak", "py": lv, "ev": leak},
                                                {"id": "double", "py": lv, "ev": dbl}, {"id": "memerr", "py": lv, "ev": mem}])
    print(v)
    ok = v["orig"]["ok"] and not v["leak"]["ok"] and v["double"]["clause"] == "double-free" and v["memerr"]["clause"].startswith("memory-error")
    return 0 if ok else 1
