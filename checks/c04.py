"""C04 - actuator commands: the firmware drives the pins exactly as the host simulation predicts.

Decided by: the device specifications (tla/Led, RGBLed, Servo, DCMotor) with side = "fw" - the firmware
contract: valid calls produce the host's levels, delays (up to the whole-millisecond rounding) and getter
values; invalid ones are clamped.  TLC generates call histories; each batch is rendered as one Reduino
script (arguments as literals, and again as run-time values read from a scripted ADC), transpiled by /repo's
working tree, compiled with g++ against the mock Arduino core and executed; the per-call pin waveforms and
getter printouts are validated by TLC against the specification.  The same specification is bound to the host
classes by C19, so agreement of both sides with it is agreement with each other."""
from __future__ import annotations

import concurrent.futures as cf
import json

from harness import devcheck, fw, fw_act
from harness.common import NCPU
from harness.devcheck import DEV, HOST, calls_of
from harness.tracecheck import validate

LEVEL = "model_checking"
PACK = 24


def _job(args):
    kind, hs, runtime = args
    return fw_act.run_pack(kind, hs, runtime)


# renderings: literal arguments / run-time arguments through variables / queries through a helper defined first / sensor reads in the argument position
RNAME = {False: "lit", True: "rt", "fnq": "fnq", "rti": "rti"}


def host_valid(dev: str, h) -> bool:
    """True when the host accepts every call of the history (no invalid scalar argument)."""
    return all(e["res"] != "raise" for e in HOST[dev](h))


def run_device(dev: str, hs: list, run, label: str) -> None:
    ensure = fw.ensure_runtime(False)  # noqa: F841  (build once in the parent)
    jobs = []
    for runtime in (False, True, "fnq", "rti"):
        for i in range(0, len(hs), PACK):
            jobs.append((dev, hs[i:i + PACK], runtime, i))
    with cf.ProcessPoolExecutor(max_workers=NCPU) as ex:
        results = list(ex.map(_job, [(j[0], j[1], j[2]) for j in jobs], chunksize=1))
        # unpack batches that did not go through as a whole
        singles = []
        for (kind, part, runtime, base), r in zip(jobs, results):
            if "traces" not in r:
                for k, h in enumerate(part):
                    singles.append((kind, [h], runtime, base + k))
        sres = list(ex.map(_job, [(j[0], j[1], j[2]) for j in singles], chunksize=1)) if singles else []
    traces, meta = [], {}

    def take(kind, part, runtime, base, r):
        for k, h in enumerate(part):
            tid = f"{dev}-{base + k}-{RNAME[runtime]}"
            run.count(tid)
            tr = r["traces"][k]
            if tr is None:
                run.violation(f"{dev}: firmware trace of history {base + k} lacks its call markers (statements lost or reordered)",
                              {"device": dev, "history": h, "runtime": runtime, "script": r["src"]})
                continue
            t = {"id": tid, "side": "fw", "ev": tr}
            if dev == "servo":
                t["cal"] = h["cal"]
            traces.append(t)
            meta[tid] = (h, runtime, r["src"], r["inputs"])

    for (kind, part, runtime, base), r in zip(jobs, results):
        if "traces" in r:
            take(kind, part, runtime, base, r)
    for (kind, part, runtime, base), r in zip(singles, sres):
        if "traces" in r:
            take(kind, part, runtime, base, r)
            continue
        h = part[0]
        tid = f"{dev}-{base}-{RNAME[runtime]}"
        run.count(tid)
        if r["transpile"] == "reject" and not host_valid(dev, h):
            run.cov["rejected_invalid_histories"] = run.cov.get("rejected_invalid_histories", 0) + 1
            continue   # an out-of-range command refused at transpile time never reaches a pin
        what = (f"{dev}: valid call history refused by the transpiler ({r.get('cls')}: {r.get('msg')})" if r["transpile"] == "reject"
                else f"{dev}: transpiler {r['transpile']} ({r.get('cls')}: {r.get('msg')})" if r["transpile"] != "accept"
                else f"{dev}: emitted firmware does not compile: {r.get('stderr', '')[-300:]}")
        run.violation(what, {"device": dev, "history": h, "runtime": runtime, "script": r["src"]})
    # the host class on the same histories (what "the host predicts" is bound to the same specification; C19 does this in depth):
    # a host that skips a wait, restores another colour or keeps another mode than the specification says disagrees with the device
    htraces = []
    for k, h in enumerate(hs):
        t = {"id": f"{dev}-{k}-host", "side": "host", "ev": HOST[dev](h)}
        if dev == "servo":
            t["cal"] = h["cal"]
        htraces.append(t)
    hverd = validate(DEV[dev]["trace"], DEV[dev]["trace"] + ".cfg", htraces, run, label=f"{dev} host {label}") if htraces else {}
    for k, h in enumerate(hs):
        v = hverd.get(f"{dev}-{k}-host")
        run.count(f"{dev}-{k}-host")
        if v is not None and not v["ok"]:
            ev = htraces[k]["ev"]
            run.violation(f"{dev}: the host class leaves the specification at call {v['l'] - 1} ({v['clause']}): {json.dumps(ev[v['l'] - 1])[:260]}",
                          {"device": dev, "history": h, "side": "host", "verdict": v, "trace": ev})
    if not traces:
        return
    verdicts = validate(DEV[dev]["trace"], DEV[dev]["trace"] + ".cfg", traces, run, label=f"{dev} firmware {label}")
    run.sample({"device": dev, "history": meta[traces[0]["id"]][0], "firmware_trace": traces[0]["ev"][:3]})
    for tid, v in verdicts.items():
        for k in v.get("known", []) or []:
            run.violation(f"{dev}: known deviation {k} reproduced (history {json.dumps(meta[tid][0])[:160]})", {}, finding=k)
        if not v["ok"]:
            h, runtime, src, inputs = meta[tid]
            ev = next(t for t in traces if t["id"] == tid)["ev"]
            run.violation(f"{dev}: firmware leaves the specification at call {v['l'] - 1} ({v['clause']}), "
                          f"{RNAME[runtime]} rendering: {json.dumps(ev[v['l'] - 1])[:260]}",
                          {"device": dev, "history": h, "runtime": runtime, "verdict": v, "script": src, "inputs": inputs, "trace": ev})


def check(run) -> None:
    quick = run.tier == "quick"
    run.cov["rule"] = ("a case = one TLC-generated call history (exhaustive length 2 over the grid + -simulate walks) rendered with literal or "
                       "run-time arguments, compiled into firmware and executed; distinct = distinct (device, history, rendering); every "
                       "history has at least one pin-driving call")
    run.assumptions += ["firmware semantics = emitted C++ compiled with host g++ against /verif/mock (int is 32 bit there)",
                        "digitalWrite HIGH/LOW = level 255/0; re-writing the level a pin already has is invisible (stuttering)",
                        "RGBLed getters are refused by the transpiler, so an RGB LED is observed on its pins only"]
    for dev in DEV:
        devcheck.model_check(dev, "quick" if quick else "full", run)
        hs = devcheck.sample(devcheck.generate(dev, "quick" if quick else "full", 2, run), 700 if quick else 12000, run.seed)
        walks = devcheck.generate(dev, "full", 6 if quick else 10, run, simulate=120 if quick else 1500, seed=run.seed)
        walks = devcheck.sample(devcheck.dedup(walks), 120 if quick else 1500, run.seed)
        run_device(dev, hs + walks, run, "histories")


def replay(path: str) -> int:
    r = json.load(open(path))
    if r.get("side") == "host":
        t = {"id": "replay", "side": "host", "ev": HOST[r["device"]](r["history"])}
        if r["device"] == "servo":
            t["cal"] = r["history"]["cal"]
        v = validate(DEV[r["device"]]["trace"], DEV[r["device"]]["trace"] + ".cfg", [t])["replay"]
        print(json.dumps(v))
        if not v["ok"]:
            print(f"VIOLATION property=C04 replay={path}")
            return 1
        return 0
    dev, h, runtime = r["device"], r["history"], r["runtime"]
    res = fw_act.run_pack(dev, [h], runtime)
    if "traces" not in res or res["traces"][0] is None:
        print(json.dumps({k: res.get(k) for k in ("transpile", "cls", "msg", "compile", "stderr")}))
        print(f"VIOLATION property=C04 replay={path}")
        return 1
    t = {"id": "replay", "side": "fw", "ev": res["traces"][0]}
    if dev == "servo":
        t["cal"] = h["cal"]
    v = validate(DEV[dev]["trace"], DEV[dev]["trace"] + ".cfg", [t])["replay"]
    print(json.dumps(v))
    if not v["ok"]:
        print(f"VIOLATION property=C04 replay={path}")
        return 1
    return 0


def selftest(seed: int) -> int:
    """Negative control: corrupt one delay / one level of an accepted firmware trace -> rejected at that event."""
    import copy
    h = [{"act": "blink", "a": [7, 2], "p": []}, {"act": "set_brightness", "a": [128], "p": []}]
    res = fw_act.run_pack("led", [h], False)
    t = {"id": "orig", "side": "fw", "ev": res["traces"][0]}
    c1 = copy.deepcopy(t); c1["id"] = "delay"; c1["ev"][1]["wave"][1]["us"] += 1000
    c2 = copy.deepcopy(t); c2["id"] = "level"; c2["ev"][2]["wave"][-1]["lv"] = 129
    v = validate("LedTrace", "LedTrace.cfg", [t, c1, c2])
    print(v)
    return 0 if v["orig"]["ok"] and not v["delay"]["ok"] and not v["level"]["ok"] else 1
