"""C06 - accepted scripts always yield well-formed, compilable Arduino C++.

Decided by: the transpilation protocol with the C06 obligation added (tla/Compilable.tla: after Accept the only step
is Compile(TRUE); string literals arrive unchanged) and the structural specification of the emitted text
(tla/Sketch.tla: exactly one setup()/loop(), unique definitions, include <=> instantiated class).  TLC model-checks
both, enumerates the string-literal family (StrFamily: every printable ASCII character, the escapes, trigraphs, non-
ASCII x eight positions a literal can take) and - through LangFamilies / LibsGen - the program and device families;
the harness transpiles every script with /repo's working tree, compiles the emitted text with g++ against the mock
Arduino core (the compiler is the trusted oracle for declared-before-use and typing), runs the string family to read
the literals back, and TLC validates the observations (CompileTrace, SketchTrace)."""
from __future__ import annotations

import concurrent.futures as cf
import json
import random

from harness import compile_fam as cfam
from harness import fw, lang, langcheck, langgen, libs_rec
from harness.common import NCPU, MachineryError
from harness.langcheck import Strata
from harness.tlc import run_tlc
from harness.tracecheck import validate

LEVEL = "exploration"


def _tags_for_prog(v) -> list:
    m = {"pow": "pow-operator", "float-floordiv-or-mod": "float-modulo", "list-append-float": "list-append-float-expr"}
    tags = [m[t] for t in v["feat"] if t in m]
    if langcheck.retyped(v["ty"], v.get("ty0")):
        tags.append("name-retyped")
    return tags


def check(run) -> None:
    quick = run.tier == "quick"
    run.cov["rule"] = ("a case = one script accepted or refused by the transpiler and, if accepted, compiled with g++ against the mock core; "
                       "distinct = distinct script text; non-trivial = the script declares variables, functions, devices or string literals")
    run.assumptions += ["'compiles against the Arduino core' = compiles as gnu++17 with -fpermissive -fno-exceptions-free flags against /verif/mock "
                        "(avr-gcc is not installed); packed snippets compile together, a failing pack is re-compiled snippet by snippet",
                        "string echo compares the bytes the firmware prints with the UTF-8 bytes of the Python string"]
    for mod, cfg in (("CompilableMC", "CompilableMC.cfg"), ("SketchMC", "SketchMC.cfg")):
        res = run_tlc(mod, cfg, workers=8, timeout=900)
        if not res.ok:
            raise MachineryError(f"{mod}: {res.error} {res.violated}\n{res.stdout[-1500:]}")
        run.add_tlc(res, f"{mod} exhaustive")
    rnd = random.Random(run.seed)
    jobs: list = []
    # ---- 1. string-literal family (TLC-enumerated), packed per position, executed to read the literal back
    sf = run_tlc("StrFamily", "StrFamily.cfg", workers=2)
    if not sf.ok or not sf.json:
        raise MachineryError(f"StrFamily: {sf.error}")
    run.add_tlc(sf, "StrFamily enumeration")
    cases = sorted(sf.json, key=lambda c: json.dumps(c, sort_keys=True))
    bypos: dict = {}
    for k, c in enumerate(cases):
        bypos.setdefault(c["pos"], []).append((k, cfam.text_of(c)))
    strjobs, strexp = [], {}
    for pos, items in bypos.items():
        clean = [(k, t) for k, t in items if not cfam.tags_of(t)]
        for i in range(0, len(clean), 40):
            src, exp = cfam.strlit_script(pos, clean[i:i + 40])
            jid = f"str-{pos}-{i // 40}"
            strjobs.append({"id": jid, "src": src, "tags": [], "run": True, "items": clean[i:i + 40], "pos": pos})
            strexp[jid] = exp
        for k, t in items:
            if cfam.tags_of(t):
                src, exp = cfam.strlit_script(pos, [(k, t)])
                strjobs.append({"id": f"str-{pos}-one{k}", "src": src, "run": True, "items": [(k, t)], "pos": pos,
                                "tags": cfam.tags_of(t) + (["string-literal-concatenation"] if pos == "concatenation" else [])})
                strexp[f"str-{pos}-one{k}"] = exp
    # ---- 2. program families (Lang): packs of clean snippets + whole programs + probe-stratum singles
    st = Strata(run, "C06")
    snips = langgen.bin_snippets(langgen.family_cases("bin", run=run)) + langgen.expr_family() + langgen.assign_family() + langgen.list_family()
    snips += langgen.skel_snippets(langgen.family_cases("skel", 2, run), vectors=((1, 0, 1, 0, 1, 0),))
    snips += langgen.tflow_snippets(langgen.family_cases("tflow", 2, run)) + langgen.fold_snippets() + langgen.list_routing_snippets() + langgen.scope_fold_snippets()
    byid, singles = {}, []
    for s in snips:
        p = langgen.single(s)
        byid[p["id"]] = s
        singles.append(p)
    ev = lang.spec_eval(singles, run, "families")
    wd = [p for p in singles if ev[p["id"]]["wd"]]
    def tags_of(p):
        t = _tags_for_prog(ev[p["id"]])
        ty = byid[p["id"]].get("types")
        if ty and ty[1] != "none" and ty[0] != ty[1] and "name-retyped" not in t:
            t.append("name-retyped")          # also when the re-typing assignment sits in a branch that is not taken
        return t
    tagged = [p for p in wd if tags_of(p)]
    plain = [byid[p["id"]] for p in wd if not tags_of(p)]
    if quick:
        plain = rnd.sample(plain, min(900, len(plain)))
        tagged = rnd.sample(tagged, min(30, len(tagged)))
    for mode in ("setup", "loop", "function"):
        sel = plain if mode == "setup" else [s for s in plain if not s.get("defs")][:300]
        for p in langgen.pack(sel, 30, mode, prefix=f"c6{mode[0]}"):
            jobs.append({"id": p["id"], "src": lang.render(p), "tags": [], "snips": p["snips"], "mode": mode})
    for p in tagged:
        jobs.append({"id": p["id"], "src": lang.render(p), "tags": tags_of(p)})
    for p in langgen.fn_programs() + langgen.persist_programs():
        jobs.append({"id": p["id"], "src": lang.render(p), "tags": ["list-parameter"] if p["id"] == "fn_list" else []})
    g = langgen.Gen(rnd)
    for i in range(60 if quick else 600):
        p = g.program(f"c6rnd{i}")
        jobs.append({"id": p["id"], "src": lang.render(p), "tags": []})
    # ---- 3. device multisets (the LibsGen stimuli of C14, sampled) and the scope family
    lg = run_tlc("LibsGen", "LibsGen.cfg", workers=4, timeout=600)
    if lg.ok and lg.json:
        run.add_tlc(lg, "LibsGen device multisets")
        stims = sorted((s for s in lg.json if isinstance(s, dict)), key=lambda c: json.dumps(c, sort_keys=True))
        for i, stim in enumerate(rnd.sample(stims, min(150 if quick else 1500, len(stims)))):
            try:
                src = libs_rec.render(stim)
                tags = ["ultrasonic-in-helper"] if ("measure_distance" in src and "def use_all" in src) else []
                jobs.append({"id": f"devset{i}", "src": src, "tags": tags})
            except Exception:
                pass
    for name, src, tags in cfam.scope_family():
        jobs.append({"id": "scope-" + name, "src": src, "tags": tags})
    # ---- run everything
    fw.ensure_runtime(False)
    alljobs = strjobs + jobs
    with cf.ProcessPoolExecutor(max_workers=NCPU) as ex:
        outs = list(ex.map(cfam.compile_job, alljobs, chunksize=2))
        # packs that fail are taken apart so that one failing snippet cannot hide others
        redo = []
        for j, o in zip(alljobs, outs):
            if o["transpile"] == "accept" and o["compile"] == "fail" and j.get("snips") and len(j["snips"]) > 1:
                for sid in j["snips"]:
                    p = langgen.single(byid_snip(byid, sid), j["mode"])
                    redo.append({"id": p["id"], "src": lang.render(p), "tags": []})
            elif j.get("items") and len(j["items"]) > 1 and (o["transpile"] != "accept" or o["compile"] != "ok"):
                for k, t in j["items"]:
                    src, exp = cfam.strlit_script(j["pos"], [(k, t)])
                    redo.append({"id": f"str-{j['pos']}-one{k}", "src": src, "run": True, "items": [(k, t)], "pos": j["pos"],
                                 "tags": cfam.tags_of(t) + (["string-literal-concatenation"] if j["pos"] == "concatenation" else [])})
                    strexp[f"str-{j['pos']}-one{k}"] = exp
        routs = list(ex.map(cfam.compile_job, redo, chunksize=2)) if redo else []
    recs, meta, sketch_traces = [], {}, []
    for j, o in list(zip(alljobs, outs)) + list(zip(redo, routs)):
        if j.get("snips") and len(j["snips"]) > 1 and o["transpile"] == "accept" and o["compile"] == "fail":
            continue           # replaced by its singles
        if j.get("items") and len(j["items"]) > 1 and (o["transpile"] != "accept" or o["compile"] != "ok"):
            continue
        echo = True
        if j.get("run") and o["transpile"] == "accept" and o["compile"] == "ok":
            chk = cfam.echo_check(o["events"] or [], strexp[j["id"]])
            echo = all(chk.get(k, False) for k, _t in j["items"])
        n = len(j.get("snips", [])) or len(j.get("items", [])) or 1
        for _ in range(1):
            run.count(j["id"])
        run.cov["scripts_compiled"] = run.cov.get("scripts_compiled", 0) + (1 if o["compile"] != "none" else 0)
        run.cov["snippets_covered"] = run.cov.get("snippets_covered", 0) + n
        recs.append({"id": j["id"], "tags": o["tags"], "o": {"transpile": o["transpile"], "compile": o["compile"], "echo": echo}})
        meta[j["id"]] = (j, o)
        if o["transpile"] == "accept" and o.get("cpp") and o["compile"] == "ok":
            try:
                sketch_traces.append(libs_rec.sketch_trace(j["id"], libs_rec.observe_text(o["cpp"])))
            except Exception as e:  # scanner limitation: recorded, the compiler's verdict stands
                run.cov["sketch_scanner_gaps"] = run.cov.get("sketch_scanner_gaps", 0) + 1
    verdicts = validate("CompileTrace", "CompileTrace.cfg", recs, run, label="compile observations")
    for rid, v in verdicts.items():
        j, o = meta[rid]
        for k in v.get("known") or []:
            run.violation(f"{k}: accepted script does not compile ({rid}): {o['stderr'][-160:]!r}", {}, finding=k)
        if not v["ok"]:
            run.violation(f"{rid}: {v['clause']}: {(o['stderr'] or '')[-300:]!r}",
                          {"id": rid, "script": j["src"], "tags": o["tags"], "stderr": o["stderr"], "clause": v["clause"]})
    if sketch_traces:
        sv = validate("SketchTrace", "SketchTrace.cfg", sketch_traces, run, label="sketch structure")
        for sid, v in sv.items():
            if not v["ok"]:
                j, o = meta[sid]
                run.violation(f"{sid}: emitted sketch is structurally ill-formed ({v['clause']} at item {v['l']})", {"id": sid, "script": j["src"], "clause": v["clause"]})
    st_counts: dict = {}
    for r in recs:
        key = f"{r['o']['transpile']}/{r['o']['compile']}"
        st_counts[key] = st_counts.get(key, 0) + 1
    run.cov["outcomes"] = st_counts
    run.sample({"id": recs[0]["id"], "observation": recs[0]["o"], "script_head": meta[recs[0]["id"]][0]["src"][-300:]})


def byid_snip(byid: dict, sid: str) -> dict:
    return byid[f"one-{sid}-setup-0"]


def replay(path: str) -> int:
    r = json.load(open(path))
    o = cfam.compile_job({"id": r["id"], "src": r["script"], "tags": r.get("tags", [])})
    print(json.dumps({k: o[k] for k in ("transpile", "compile", "stderr")})[:600])
    if o["transpile"] == "accept" and o["compile"] == "fail":
        print(f"VIOLATION property=C06 replay={path}")
        return 1
    return 0


def selftest(seed: int) -> int:
    """Negative controls: an accepted script whose C++ is broken by hand must be judged 'does not compile'; a literal
    that comes back altered must be judged 'not preserved'."""
    recs = [{"id": "good", "tags": [], "o": {"transpile": "accept", "compile": "ok", "echo": True}},
            {"id": "broken", "tags": [], "o": {"transpile": "accept", "compile": "fail", "echo": True}},
            {"id": "altered", "tags": [], "o": {"transpile": "accept", "compile": "ok", "echo": False}},
            {"id": "refused", "tags": [], "o": {"transpile": "reject", "compile": "none", "echo": True}},
            {"id": "listed", "tags": ["try-except"], "o": {"transpile": "accept", "compile": "fail", "echo": True}}]
    v = validate("CompileTrace", "CompileTrace.cfg", recs)
    print(v)
    ok = (v["good"]["ok"] and v["refused"]["ok"] and v["broken"]["clause"] == "accepted-script-does-not-compile"
          and v["altered"]["clause"] == "string-literal-not-preserved" and v["listed"]["ok"] and v["listed"]["known"] == ["try-except"])
    # and the compiler leg itself: a sketch with an undeclared identifier fails
    bad = fw.compile_run("#include <Arduino.h>\nvoid setup(){ x = 1; }\nvoid loop(){}\n", syntax_only=True)
    return 0 if ok and bad["compile"] == "fail" else 1
