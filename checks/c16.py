"""C16 - Buzzer: every sound is bounded, silent when it should be, follows the score.

Decided by: tla/Buzzer.tla, the only reference (the Python Buzzer class is a placeholder): the tone protocol
transcribed from the property statement as micro-steps ToneOn(f) / ToneOff / Wait(us) per public call, with a
step relation that carries the latitude the statement grants (whole hertz in tone(), whole milliseconds in
delay(), print precision of the getters, optional trailing pause, ...).
  1. TLC model-checks the specification: call sequences of every length over the argument grids, every named
     invariant of C16 in every micro-state.
  2. TLC generates call histories (exhaustive length 2 = all prefixes too, -simulate walks, a probe stratum for
     every known finding); each batch is rendered as one packed Reduino script (one buzzer per history, distinct
     pins; arguments as literals and again as run-time values read from a scripted ADC), transpiled by the working
     tree, compiled with g++ against the mock Arduino core and executed.
  3. The tone/noTone/delay events on each buzzer's pin and the getter printouts after every call are validated by
     TLC against BuzzerTrace (membership in the step relation + the invariants on the implementation's states).
The specification's copy of the documented tunes is compared with emitter._BUZZER_MELODIES first; a difference
is a spec gap (printed, counted), not a violation, and the tunes concerned are left out of the run."""
from __future__ import annotations

import concurrent.futures as cf
import copy
import json
import random
import time

from harness import fw, fw_buzzer
from harness.common import NCPU, MachineryError
from harness.tlc import run_tlc
from harness.tracecheck import validate

LEVEL = "model_checking"
CALLS_PER_PACK = 140     # one firmware build hosts this many calls (measured: 128 one-call buzzers build and run in 1.3 s, 24 in 0.7 s)
NONE = fw_buzzer.NONE
GRID_NAMES = ["Freqs", "Durs", "OnOffs", "Times", "StepsG", "SweepDurs", "Tempos"]
INVARIANTS = ["TypeOK", "NoToneAtOrBelowZero", "SilentAfterTimedCall", "StopStops", "BeepCount", "BeepSilentWhenNotPositive",
              "SweepMonotoneEndsOnEnd", "SweepWithinDuration", "MelodyFollowsScore", "GettersTrackTone", "CanonicalIsAllowed",
              "NoKnownDeviationInSpec"]
PROPERTIES = ["ToneOnlyPositive"]
ACTIONS = ["Invoke", "ToneOn", "ToneOff", "Wait", "Forget"]


def _grid(sfx: str, melodies: str, defaults: str) -> str:
    return "CONSTANTS\n" + "".join(f"  {n} <- {n.replace('StepsG', 'Steps')}{sfx}\n" for n in GRID_NAMES) \
           + f"  Melodies {'=' if melodies.startswith('{') else '<-'} {melodies}\n  Defaults <- {defaults}\n"


# ------------------------------------------------------------------ 0. the documented tunes
def check_scores(run) -> set[str]:
    """Compare the spec's score table with the emitter's; returns the melody names that agree."""
    res = run_tlc("BuzzerScore", "BuzzerScore.cfg", workers=1, timeout=120).need_ok()
    spec = next((o["score"] for o in res.json if isinstance(o, dict) and "score" in o), None)
    if spec is None:
        raise MachineryError("BuzzerScore printed no score table\n" + res.stdout[-1500:])
    code = fw_buzzer.emitter_scores()
    good = set()
    for name in sorted(set(spec) | set(code["emitter"]) | set(code["parser_names"])):
        s, e = spec.get(name), code["emitter"].get(name)
        if s is None or e is None or name not in code["parser_names"]:
            run.spec_gap(f"melody '{name}': in spec={s is not None} emitter table={e is not None} parser names={name in code['parser_names']}")
        elif s["tempo"] != e["tempo"] or [list(map(float, n)) for n in s["notes"]] != [list(map(float, n)) for n in e["notes"]]:
            # the specification states what each named tune IS (notes, lengths, tempo - Buzzer!Score); a table that plays something
            # else under that name breaks "melody plays exactly the named tune's notes"
            run.violation(f"melody '{name}': the firmware's score table is not the named tune (specification {json.dumps(s)[:300]} "
                          f"emitter._BUZZER_MELODIES {json.dumps(e)[:300]}); the tune is left out of the trace runs",
                          {"kind": "score-table", "melody": name, "spec": s, "emitter": e})
        else:
            good.add(name)
    run.cov["melodies_cross_checked"] = sorted(good)
    return good


# ------------------------------------------------------------------ 1. model checking
def model_check(run, sfx: str) -> None:
    cfg = "SPECIFICATION Spec\n" + _grid(sfx, "MelodiesDef", "DefaultsDef") + "".join(f"INVARIANT {i}\n" for i in INVARIANTS) \
          + "".join(f"PROPERTY {p}\n" for p in PROPERTIES) + "CHECK_DEADLOCK FALSE\n"
    res = run_tlc("BuzzerMC", cfg, workers=8, timeout=1500, coverage=True)
    if not res.ok:
        raise MachineryError(f"BuzzerMC (grid {sfx}): spec-level check failed: {res.error} {res.violated}\n{res.stdout[-2500:]}")
    dead = [a for a in ACTIONS if a in res.coverage and res.coverage[a][1] == 0]
    if dead:
        raise MachineryError(f"BuzzerMC: actions never taken (vacuous model): {dead}")
    run.add_tlc(res, f"BuzzerMC exhaustive model check (call sequences of every length, micro-step states), grid={sfx}, "
                     f"{len(INVARIANTS)} invariants + {len(PROPERTIES)} action property")


# ------------------------------------------------------------------ 2. generation
def generate(run, sfx: str, maxlen: int, maxknown: int, melodies: str, defaults: str = "DefaultsDef",
             simulate: int | None = None, seed: int = 1) -> list[dict]:
    cfg = "INIT GInit\nNEXT GNext\n" + _grid(sfx, melodies, defaults) + f"  MaxLen = {maxlen}\n  MaxKnown = {maxknown}\n"
    if simulate is None:
        res = run_tlc("BuzzerGen", cfg + "CONSTRAINT Emit\nCHECK_DEADLOCK FALSE\n", workers=8, timeout=900)
    else:
        res = run_tlc("BuzzerGen", cfg.replace("NEXT GNext", "NEXT GNextSim") + "CONSTRAINT EmitSim\nCHECK_DEADLOCK FALSE\n", workers=1, timeout=900,
                      simulate=f"num={simulate}", depth=maxlen + 1, seed=seed)
    if not res.ok:
        raise MachineryError(f"BuzzerGen: generation failed: {res.error}\n{res.stdout[-2000:]}")
    hs = [o for o in res.json if isinstance(o, dict) and "h" in o and len(o["h"]) == maxlen]
    if not hs:
        raise MachineryError(f"BuzzerGen: no behaviours generated\n{res.stdout[-1500:]}")
    run.add_tlc(res, f"BuzzerGen histories len={maxlen} {'bfs' if simulate is None else 'simulate'} grid={sfx} max_known_triggers={maxknown}")
    return hs


def dedup(hs: list[dict]) -> list[dict]:
    seen, out = set(), []
    for h in hs:
        k = json.dumps(h, sort_keys=True)
        if k not in seen:
            seen.add(k)
            out.append(h)
    return out


def sample(hs: list, n: int, seed: int) -> list:
    return list(hs) if len(hs) <= n else random.Random(seed).sample(hs, n)


# ------------------------------------------------------------------ 3. firmware + trace validation
def _job(args):
    cases, runtime = args
    return fw_buzzer.run_pack(cases, runtime)


def _benign_reject(case: dict) -> bool:
    """A history with a zero/negative argument refused at transpile time never reaches a pin."""
    return any(x != NONE and x <= 0 for c in case["h"] for x in c["a"])


def run_cases(cases: list[dict], run, label: str, renderings=(False, True), per_pack: int = CALLS_PER_PACK) -> None:
    fw.ensure_runtime(False)
    jobs = []
    for rt in renderings:
        i = 0
        while i < len(cases):
            j, n = i, 0
            while j < len(cases) and (j == i or n + len(cases[j]["h"]) <= per_pack):
                n += len(cases[j]["h"])
                j += 1
            jobs.append((cases[i:j], rt, i))
            i = j
    with cf.ProcessPoolExecutor(max_workers=NCPU) as ex:
        results = list(ex.map(_job, [(j[0], j[1]) for j in jobs], chunksize=1))
        singles = [([c], rt, base + k) for (part, rt, base), r in zip(jobs, results) if "traces" not in r for k, c in enumerate(part)]
        sres = list(ex.map(_job, [(j[0], j[1]) for j in singles], chunksize=1)) if singles else []
    traces, meta = [], {}

    def take(part, rt, base, r):
        for k, case in enumerate(part):
            tid = f"{label}-{base + k}-{'rt' if rt else 'lit'}"
            run.count(json.dumps([case, rt], sort_keys=True))
            tr = r["traces"][k]
            if tr is None:
                run.violation(f"buzzer: firmware trace of history {json.dumps(case['h'])[:200]} lacks its call markers (statements lost or reordered)",
                              {"case": case, "runtime": rt, "script": r["src"], "inputs": r["inputs"]})
                continue
            traces.append({"id": tid, "dflt": case["dflt"], "ev": tr})
            meta[tid] = (case, rt, r["src"], r["inputs"])

    for (part, rt, base), r in zip(jobs, results):
        if "traces" in r:
            take(part, rt, base, r)
    for (part, rt, base), r in zip(singles, sres):
        if "traces" in r:
            take(part, rt, base, r)
            continue
        case = part[0]
        run.count(json.dumps([case, rt], sort_keys=True))
        if r["transpile"] == "reject" and _benign_reject(case):
            run.cov["rejected_out_of_range_histories"] = run.cov.get("rejected_out_of_range_histories", 0) + 1
            continue
        what = (f"buzzer: documented call refused by the transpiler ({r.get('cls')}: {r.get('msg')})" if r["transpile"] == "reject"
                else f"buzzer: transpiler {r['transpile']} ({r.get('cls')}: {r.get('msg')})" if r["transpile"] != "accept"
                else f"buzzer: emitted firmware does not compile or crashes: {r.get('stderr', '')[-300:]}")
        run.violation(what + f" history {json.dumps(case['h'])[:200]}", {"case": case, "runtime": rt, "script": r["src"], "inputs": r["inputs"]})
    if not traces:
        return
    verdicts = validate("BuzzerTrace", "BuzzerTrace.cfg", traces, run, label=f"buzzer firmware {label}")
    run.sample({"history": meta[traces[0]["id"]][0], "firmware_trace": traces[0]["ev"][:3]})
    by_id = {t["id"]: t for t in traces}
    for tid, v in verdicts.items():
        case, rt, src, inputs = meta[tid]
        for k in v.get("known", []) or []:
            run.violation(f"known deviation reproduced, e.g. history {json.dumps(case['h'])[:200]} ({'run-time' if rt else 'literal'} arguments)",
                          {}, finding=k)
        if not v["ok"]:
            ev = by_id[tid]["ev"]
            run.violation(f"buzzer: firmware leaves the specification at call {v['l'] - 1} ({v['clause']}), "
                          f"{'run-time' if rt else 'literal'} arguments: {json.dumps(ev[v['l'] - 1])[:300]}",
                          {"case": case, "runtime": rt, "verdict": v, "script": src, "inputs": inputs, "trace": ev})


def getter_argument_histories() -> list[dict]:
    """Histories in which a frequency argument is an expression over the buzzer's OWN state queries; the expression has the
    value of the nominal argument at the moment the call is made (Python evaluates an argument once, before the call)."""
    def c(act, a, m="", fx=None):
        d = {"act": act, "a": list(a), "m": m}
        if fx:
            d["fx"] = {str(k): v for k, v in fx.items()}
        return d
    H = [
        [c("play_tone", [440000, NONE]), c("beep", [440000, 20, 10, 3], fx={0: "{n}.get_frequency()"})],
        [c("play_tone", [220000, 20]), c("beep", [440000, 10, 10, 3], fx={0: "{n}.get_last_frequency() * 2"})],
        [c("play_tone", [330000, NONE]), c("play_tone", [330000, 15], fx={0: "{n}.get_frequency()"}), c("beep", [330000, 5, 5, 2], fx={0: "{n}.get_last_frequency()"})],
        [c("play_tone", [262000, 10]), c("sweep", [262000, 524000, 40, 4], fx={0: "{n}.get_last_frequency()", 1: "{n}.get_last_frequency() * 2"})],
        [c("play_tone", [500000, NONE]), c("sweep", [500000, 250000, 30, 3], fx={0: "{n}.get_frequency()", 1: "{n}.get_frequency() / 2"}),
         c("beep", [250000, 10, 0, 2], fx={0: "{n}.get_last_frequency()"})],
    ]
    return [{"dflt": 440000, "h": h} for h in H]


def check(run) -> None:
    quick = run.tier == "quick"
    run.cov["rule"] = ("a case = one TLC-generated buzzer call history (with the buzzer's default frequency) in one rendering (literal or "
                       "run-time arguments), compiled into firmware and executed; every call of it is validated on its own, so a history "
                       "of length n also decides its n prefixes; distinct = distinct (history, rendering); every history has >= 1 call")
    run.assumptions += [
        "firmware semantics = emitted C++ compiled with host g++ against /verif/mock (int is 32 bit, unsigned long 64 bit there)",
        "no host model exists: tla/Buzzer.tla, transcribed from the property statement, is the reference",
        "tone(pin, hz) = tone started; noTone on a silent pin, and a zero-length silence between two tones, are invisible",
        "readings where the statement is silent are granted as nondeterminism in the spec (trailing beep pause optional; beep() without "
        "frequency = last or default frequency; sweep steps<=0 = nothing or one step; negative sweep ends clamped or not; tempo<=0 = "
        "default tempo; negative duration = no wait; calls that start no tone: only bounded, silent, getters on the pin)",
        "run-time values are injected through a scripted analogRead (Potentiometer on A0); fractional frequencies as value * 0.1",
    ]
    t0 = time.time()
    stages = run.cov.setdefault("stage_wall_s", {})

    def lap(name):
        nonlocal t0
        stages[name] = round(time.time() - t0, 1)
        t0 = time.time()

    good = check_scores(run)
    lap("score cross-check")
    mel = "MelodiesDef" if good >= {"success", "error", "startup", "notify", "alarm", "scale_c", "siren"} else \
          "{" + ", ".join(f'"{m}"' for m in sorted(good)) + "}"
    model_check(run, "Q" if quick else "Def")
    lap("model checking")

    # clean stratum: no call meets the trigger of a known finding
    one = generate(run, "Def", 1, 0, mel)                                  # every call of the full grid, from the initial state
    two = generate(run, "S" if quick else "Q", 2, 0, mel, "DefaultsQ")     # every pair over the reduced grid
    # (a walk ends early when it meets a known trigger, so about three times as many are started as are wanted)
    walks = dedup(generate(run, "Def", 5 if quick else 8, 0, mel, simulate=360 if quick else 10000, seed=run.seed))
    run.cov["generated"] = {"len1_full_grid": len(one), "len2_reduced_grid": len(two), "walks": len(walks)}
    clean = one + sample(two, 400 if quick else 16000, run.seed) + sample(walks, 120 if quick else 2500, run.seed)
    lap("generation (clean)")
    run_cases(clean, run, "clean")
    run_cases(getter_argument_histories(), run, "getter-args", renderings=(False,))
    lap("firmware + trace validation (clean)")
    if not quick:      # packing is part of the binding: a seeded sample is run again one history per firmware
        run_cases(sample(clean, 150, run.seed + 1), run, "unpacked", per_pack=1)
        lap("firmware + trace validation (unpacked sample)")

    # probe stratum: histories that meet exactly one known trigger (run on every invocation)
    p1 = [h for h in generate(run, "P", 2, 1, mel, "DefaultsQ") if h["nk"] == 1]
    pn = [h for h in generate(run, "N", 1, 1, "MelodiesN" if "error" in good else "{}", "DefaultsQ") if h["nk"] == 1]
    run.cov["generated"].update({"probe_one_trigger": len(p1), "probe_negative_durations": len(pn)})
    lap("generation (probe)")
    run_cases(sample(p1, 150 if quick else 2500, run.seed) + pn, run, "probe")
    lap("firmware + trace validation (probe)")


# ------------------------------------------------------------------ replay / selftest
def replay(path: str) -> int:
    r = json.load(open(path))
    if r.get("kind") == "score-table":
        code = fw_buzzer.emitter_scores()["emitter"].get(r["melody"])
        s0 = r["spec"]
        same = code is not None and s0["tempo"] == code["tempo"] and [list(map(float, n)) for n in s0["notes"]] == [list(map(float, n)) for n in code["notes"]]
        print(json.dumps({"melody": r["melody"], "emitter": code, "same_as_specification": same}))
        if not same:
            print(f"VIOLATION property=C16 replay={path}")
            return 1
        return 0
    case, rt = r["case"], r["runtime"]
    res = fw_buzzer.run_pack([case], rt)
    if "traces" not in res or res["traces"][0] is None:
        print(json.dumps({k: res.get(k) for k in ("transpile", "cls", "msg", "compile", "stderr")}))
        print(f"VIOLATION property=C16 replay={path}")
        return 1
    v = validate("BuzzerTrace", "BuzzerTrace.cfg", [{"id": "replay", "dflt": case["dflt"], "ev": res["traces"][0]}])["replay"]
    print(json.dumps(v))
    if not v["ok"]:
        print(json.dumps(res["traces"][0][v["l"] - 1]))
        print(f"VIOLATION property=C16 replay={path}")
        return 1
    for k in v.get("known", []) or []:
        print(f"KNOWN-FINDING: property=C16 {k}")
    return 0


def selftest(seed: int) -> int:
    """Negative controls: corrupt one logged field of an accepted firmware trace / drop an event class from the
    recorder -> the trace must be rejected, at that call."""
    C = lambda act, a, m="": {"act": act, "a": a, "m": m}   # noqa: E731
    case = {"dflt": 440000, "h": [C("beep", [880000, 100, 7, 3]), C("sweep", [100000, 1000000, 120, 10]), C("melody", [240], "startup"),
                                  C("play_tone", [4000600, NONE]), C("stop", []), C("play_tone", [440000, 120])]}
    res = fw_buzzer.run_pack([case], False)
    t = {"id": "orig", "dflt": case["dflt"], "ev": res["traces"][0]}

    def mut(name, f):
        c = copy.deepcopy(t)
        c["id"] = name
        f(c["ev"])
        return c

    def seg(ev, k, pred):
        return next(s for s in ev[k]["wave"][1:] if pred(s))

    muts = [
        (mut("delay", lambda ev: seg(ev, 1, lambda s: s["lv"] > 0).__setitem__("us", 101000)), 1),         # a beep 1 ms too long
        (mut("gap", lambda ev: seg(ev, 1, lambda s: s["lv"] == 0).__setitem__("us", 8000)), 1),            # a pause 1 ms too long
        (mut("level", lambda ev: seg(ev, 2, lambda s: s["lv"] == 1000).__setitem__("lv", 1001)), 2),       # sweep ends 1 Hz off
        (mut("count", lambda ev: ev[1]["wave"].__delitem__(slice(1, 3))), 1),                               # one beep less
        (mut("note", lambda ev: seg(ev, 3, lambda s: s["lv"] == 392).__setitem__("lv", 330)), 3),          # wrong note in the tune
        (mut("order", lambda ev: ev[3]["wave"].__setitem__(slice(1, 4), ev[3]["wave"][3:0:-1])), 3),       # notes out of order
        (mut("state", lambda ev: ev[4].__setitem__("sounding", False)), 4),                                 # get_state lies
        (mut("cur", lambda ev: ev[4].__setitem__("cur", 4000000)), 4),                                      # get_frequency off
        (mut("last", lambda ev: ev[6].__setitem__("last", 441000)), 6),                                     # get_last_frequency off
        (mut("sweep-long", lambda ev: [s.__setitem__("us", 13000) for s in ev[2]["wave"][1:-1]]), 2),      # sweep exceeds duration
    ]
    dropped = fw_buzzer.run_pack([case], False, drop="notone")["traces"][0]                                 # recorder loses noTone
    muts.append(({"id": "drop-notone", "dflt": case["dflt"], "ev": dropped}, 1))
    dropped = fw_buzzer.run_pack([case], False, drop="d")["traces"][0]                                      # recorder loses delay
    muts.append(({"id": "drop-delay", "dflt": case["dflt"], "ev": dropped}, 1))
    v = validate("BuzzerTrace", "BuzzerTrace.cfg", [t] + [m for m, _ in muts])
    ok = v["orig"]["ok"]
    print("orig", v["orig"])
    for m, at in muts:
        r = v[m["id"]]
        good = (not r["ok"]) and r["l"] - 1 == at
        print(m["id"], r, "OK" if good else "NOT REJECTED WHERE EXPECTED")
        ok = ok and good
    return 0 if ok else 1
