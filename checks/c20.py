"""C20 - host sensor, Core-pin, timing and serial helpers are faithful small models.

Decided by four specifications: CorePins (the pin simulation is a memory: read-your-writes, 7 == "7", clamping,
pull-up default, non-interference), Utils (map is the exact affine map and refuses a zero span; sleep waits
ms/1000 s exactly once and refuses negatives), HostSensors (Button fires on_click once per rising edge;
Potentiometer / Ultrasonic return the provider's value or raise outside their range) and SerialMon (write sends
exactly str(value)+newline and returns str(value); connect/close state machine).
(1) TLC model-checks every named invariant / action property of each specification exhaustively over its grids;
(2) TLC generates behaviours (all call histories up to a length + -simulate walks); (3) each behaviour is
executed in-process on the real modules of /repo's working tree (module-level pin state reset and asserted
between behaviours), a trace is recorded after every call (outcome, return value, projected state, backend
calls) and (4) the traces are validated in batches by TLC against the same specification (total verdicts naming
the failing clause).  Known deviations are matched exactly by named spec predicates (known/C20.json)."""
from __future__ import annotations

import copy
import json
import random

from harness import host_sens
from harness.common import MachineryError
from harness.tlc import run_tlc
from harness.tracecheck import validate

LEVEL = "model_checking"
MAX_REPLAYS_PER_CLAUSE = 12
_written: dict = {}

CORE_UNIVERSE = {
    "LabelsQ": dict(labels=["7", "A0"], names=[{"k": "int", "l": "7"}, {"k": "str", "l": "7"}, {"k": "str", "l": "A0"}]),
    "LabelsDef": dict(labels=["7", "8", "A0"], names=[{"k": "int", "l": "7"}, {"k": "str", "l": "7"}, {"k": "int", "l": "8"},
                                                        {"k": "str", "l": "A0"}]),
}

COMP = {
    "core": dict(
        mc="CorePinsMC", gen="CorePinsGen", trace="CorePinsTrace", record=host_sens.core_trace,
        grids={"tiny": dict(Labels="LabelsQ", Names="NamesQ", Modes="ModesT", DVals="DValsT", AVals="AValsT"),
               "quick": dict(Labels="LabelsQ", Names="NamesQ", Modes="ModesDef", DVals="DValsQ", AVals="AValsQ"),
               "full": dict(Labels="LabelsDef", Names="NamesDef", Modes="ModesDef", DVals="DValsDef", AVals="AValsDef"),
               # exhaustive check, thorough tier: two pins x full value grids, and three pins x smallest value grids
               "deep": dict(Labels="LabelsQ", Names="NamesQ", Modes="ModesDef", DVals="DValsDef", AVals="AValsDef"),
               "wide": dict(Labels="LabelsDef", Names="NamesDef", Modes="ModesDef", DVals="DValsT", AVals="AValsT")},
        mc_head="INIT UInit\nNEXT UNext\n", mc_tail="VIEW MemView\n", mc_extra="  MaxLen = 0\n",
        invariants=["TypeOK", "ClampAnalog", "DigitalIsBit", "PullupDefault"],
        properties=["ReadReturnsStored", "ReadYourWrites", "ReadsArePure", "NonInterference", "AliasIntStr", "WritesKeepKinds"],
        gen_head="INIT HInit\nNEXT HNext\n"),
    "utils": dict(
        mc="UtilsMC", gen="UtilsGen", trace="UtilsTrace", record=host_sens.utils_trace,
        grids={"quick": dict(MapVals="MapValsQ", FromRanges="FromRangesQ", ToRanges="ToRangesQ", MapTypings="MapTypingsDef",
                             SleepVals="SleepValsQ", SleepTypings="SleepTypingsDef", Vias="ViasDef"),
               "full": dict(MapVals="MapValsDef", FromRanges="FromRangesDef", ToRanges="ToRangesDef", MapTypings="MapTypingsDef",
                            SleepVals="SleepValsDef", SleepTypings="SleepTypingsDef", Vias="ViasDef")},
        mc_head="INIT Init\nNEXT NextOnce\n", mc_tail="", mc_extra="",
        invariants=["CanonicalIsAllowed", "AllInRange", "ZeroSpanRefused", "MapEndpoints", "SleepExactlyOnce",
                    "NegativeSleepRefused", "RefusedSleepDoesNotWait"],
        properties=[], gen_head="INIT GInit\nNEXT GNext\n"),
    "sensors": dict(
        mc="HostSensorsMC", gen="HostSensorsGen", trace="HostSensorsTrace", record=host_sens.sensors_trace,
        grids={"quick": dict(Cfgs="CfgsDef", Levels="LevelsQ", Adcs="AdcsQ", Dists="DistsQ"),
               "full": dict(Cfgs="CfgsDef", Levels="LevelsDef", Adcs="AdcsDef", Dists="DistsDef"),
               "button": dict(Cfgs="CfgsButton", Levels="LevelsB", Adcs="AdcsQ", Dists="DistsQ")},
        mc_head="SPECIFICATION Spec\n", mc_tail="CONSTRAINT ShortSignal\n", mc_extra="",
        invariants=["ClicksEqualRisingEdges", "AtMostOneClickPerCall", "IsPressedReturnsLevel", "PotInRange", "PotRefusesOutside",
                    "PotIntegerIsFaithful", "DistanceNonNegative", "DistanceRefusesNegative", "ProviderSampledOnce"],
        properties=["ClickOnlyOnRisingEdge", "SetPressedIsSilent", "CanonicalIsAllowed"], gen_head="INIT GInit\nNEXT GNext\n"),
    "serial": dict(
        mc="SerialMonMC", gen="SerialMonGen", trace="SerialMonTrace", record=host_sens.serial_trace,
        grids={"quick": dict(Cfgs="CfgsQ", Ports="PortsQ", Texts="TextsQ", Lines="LinesQ", Emits="EmitsQ"),
               "full": dict(Cfgs="CfgsDef", Ports="PortsDef", Texts="TextsDef", Lines="LinesDef", Emits="EmitsDef")},
        mc_head="SPECIFICATION Spec\n", mc_tail="CONSTRAINT FewHandles\n", mc_extra="",
        invariants=["WriteReturnsStr", "WriteSendsExactly", "AtMostOneOpen", "CloseIdempotent", "NoBackendNoTraffic",
                    "OnlyLiveHandleUsed", "BaudValidated", "OpenUsesConfiguredBaud"],
        properties=["ReconnectClosesOld", "CloseOnlyWhenOpen", "RefusedCallChangesNothing"], gen_head="INIT GInit\nNEXT GNext\n"),
}

# vacuity guard on the implementation side: every operation, and every refusal the property names, must occur
EXPECT_ACTS = {
    "core": ["pin_mode:ok", "digital_write:ok", "analog_write:ok", "digital_read:ok", "analog_read:ok"],
    "utils": ["map:ok", "map:raise", "sleep:ok", "sleep:raise"],
    "sensors": ["is_pressed:ok", "set_pressed:ok", "read:ok", "read:raise", "measure:ok", "measure:raise"],
    "serial": ["new:ok", "new:raise", "connect:ok", "connect:raise", "close:ok", "write:ok", "read:ok", "read:raise"],
}

# minimal stimuli meeting exactly one known trigger (probe stratum, run on every invocation)
V = lambda t, m: {"t": t, "m": m}  # noqa: E731
_NV = V("int", 0)
_P7 = {"k": "int", "l": "7"}
PROBES = {
    "core": [{"h": [{"act": "pin_mode", "pin": _P7, "mode": "INPUT_PULLUP", "v": _NV}, {"act": "pin_mode", "pin": _P7, "mode": "INPUT", "v": _NV},
                    {"act": "digital_read", "pin": {"k": "str", "l": "7"}, "mode": "", "v": _NV}]}],
    "sensors": [{"cfg": {"kind": "pot", "prov": True, "dflt": _NV}, "h": [{"act": "read", "s": V("float", -4)}]},
                {"cfg": {"kind": "pot", "prov": True, "dflt": _NV}, "h": [{"act": "read", "s": V("float", 8188)}]}],
}


def _consts(grid: dict, extra: str = "") -> str:
    return "CONSTANTS\n" + "".join(f"  {k} <- {v}\n" for k, v in grid.items()) + extra


def model_check(comp: str, grid: str, run, timeout: int = 900):
    d = COMP[comp]
    cfg = d["mc_head"] + _consts(d["grids"][grid], d["mc_extra"]) + "".join(f"INVARIANT {i}\n" for i in d["invariants"]) \
        + "".join(f"PROPERTY {p}\n" for p in d["properties"]) + d["mc_tail"] + "CHECK_DEADLOCK FALSE\n"
    res = run_tlc(d["mc"], cfg, workers=8, timeout=timeout)
    if not res.ok:
        raise MachineryError(f"{d['mc']} ({grid}): spec-level check failed: {res.error} {res.violated}\n{res.stdout[-2500:]}")
    if res.distinct < 2:
        raise MachineryError(f"{d['mc']} ({grid}): vacuous model ({res.distinct} states)")
    run.add_tlc(res, f"{d['mc']} exhaustive model check, grid={grid}, {len(d['invariants'])} invariants + {len(d['properties'])} action properties")
    return res


def memory_law(grid: str, maxlen: int, run, timeout: int = 900):
    """CorePins: the history formulation of 'a memory' (a read returns the last write to an alias of the pin) against the state
    machine, for every history up to maxlen."""
    d = COMP["core"]
    cfg = "INIT HInit\nNEXT HNextB\n" + _consts(d["grids"][grid], f"  MaxLen = {maxlen}\n") \
        + "INVARIANT MemoryLaw\nINVARIANT LastReadLaw\nCHECK_DEADLOCK FALSE\n"
    res = run_tlc("CorePinsMC", cfg, workers=8, timeout=timeout)
    if not res.ok:
        raise MachineryError(f"CorePinsMC memory law ({grid}, len {maxlen}) failed: {res.error} {res.violated}\n{res.stdout[-2500:]}")
    run.add_tlc(res, f"CorePinsMC history law (MemoryLaw, LastReadLaw) for all histories of length <= {maxlen}, grid={grid}")


def generate(comp: str, grid: str, maxlen: int, run, simulate: int | None = None, seed: int = 1, timeout: int = 900) -> list:
    d = COMP[comp]
    cfg = d["gen_head"] + _consts(d["grids"][grid], f"  MaxLen = {maxlen}\n")
    if simulate is None:
        res = run_tlc(d["gen"], cfg + "CONSTRAINT Emit\nCHECK_DEADLOCK FALSE\n", workers=8, timeout=timeout)
    else:
        res = run_tlc(d["gen"], cfg + "CONSTRAINT EmitSim\nCHECK_DEADLOCK FALSE\n", workers=1, timeout=timeout,
                      simulate=f"num={simulate}", depth=maxlen + 1, seed=seed)
    if not res.ok:
        raise MachineryError(f"{d['gen']}: generation failed: {res.error}\n{res.stdout[-2000:]}")
    behs = []
    for b in res.json:
        if isinstance(b, list):
            b = {"h": b}
        if not isinstance(b, dict) or "h" not in b:
            continue
        dead = comp == "serial" and len(b["h"]) == 1       # constructor refused: the behaviour ends there
        if simulate is not None and len(b["h"]) != maxlen and not dead:
            continue
        if comp == "core":
            b.update(CORE_UNIVERSE[d["grids"][grid]["Labels"]])
        behs.append(b)
    if not behs:
        raise MachineryError(f"{d['gen']}: no behaviours generated\n{res.stdout[-1500:]}")
    run.add_tlc(res, f"{d['gen']} behaviour generation len={maxlen} {'bfs' if simulate is None else 'simulate'} grid={grid}")
    return behs


def dedup(bs: list) -> list:
    seen, out = set(), []
    for b in bs:
        k = json.dumps(b, sort_keys=True)
        if k not in seen:
            seen.add(k)
            out.append(b)
    return out


def sample(bs: list, n: int, seed: int) -> list:
    return list(bs) if len(bs) <= n else random.Random(seed).sample(bs, n)


def make_trace(comp: str, beh: dict, tid: str, variant: int = 0) -> dict:
    if comp == "serial":
        ev = host_sens.serial_trace(beh, variant)
    elif comp == "utils" and variant:
        ev = host_sens.utils_trace(beh, offset=UTILS_OFFSETS[variant - 1])
    else:
        ev = COMP[comp]["record"](beh)
    t = {"id": tid, "ev": ev}
    if comp == "core":
        t["labels"] = beh["labels"]
    if comp in ("sensors", "serial"):
        t["cfg"] = beh["cfg"]
    return t


# map() is affine in its source axis: map(v + k, lo + k, hi + k, a, b) = map(v, lo, hi, a, b).  Variants 1.. of a Utils behaviour
# execute every map call translated by a large k (windows that are narrow relative to their offset: timestamps, 2^40 ...);
# the trace keeps the untranslated arguments, so the specification (exact over 32-bit rationals) stays the judge.
UTILS_OFFSETS = [10 ** 12, -(2 ** 40), 1_700_000_000_000]


def with_universe(comp: str, beh: dict) -> dict:
    if comp == "core" and "labels" not in beh:
        beh = dict(beh)
        beh.update(CORE_UNIVERSE["LabelsDef"])
    return beh


def conform(comp: str, behs: list, run, label: str, variants=(0,), extra_variant_sample: int = 0) -> None:
    """Execute the behaviours on the real modules, validate the traces, report."""
    traces, meta = [], {}
    plan = [(i, v) for i in range(len(behs)) for v in variants]
    if extra_variant_sample:
        rnd = random.Random(run.seed + 7)
        plan += [(rnd.randrange(len(behs)), v) for v in (1, 2) for _ in range(extra_variant_sample)]
    for i, v in plan:
        tid = f"{comp}-{label}-{i}-{v}"
        if tid in meta:
            continue
        traces.append(make_trace(comp, behs[i], tid, v))
        meta[tid] = (behs[i], v)
        run.count(tid)
    acts = run.cov.setdefault("calls_executed", {}).setdefault(comp, {})
    for t in traces:
        for e in t["ev"]:
            k = f"{e['act']}:{e['out']}"
            acts[k] = acts.get(k, 0) + 1
    missing = [a for a in EXPECT_ACTS[comp] if a not in acts]
    if missing:
        raise MachineryError(f"{comp}: generated behaviours never exercise {missing} (vacuous run)")
    verdicts = validate(COMP[comp]["trace"], COMP[comp]["trace"] + ".cfg", traces, run, label=f"{comp} {label}")
    byid = {t["id"]: t for t in traces}
    run.sample({"component": comp, "behaviour": meta[traces[0]["id"]][0], "trace": traces[0]["ev"][:3]}, limit=8)
    for tid, v in sorted(verdicts.items()):
        beh, var = meta[tid]
        rep = {"component": comp, "behaviour": beh, "variant": var, "verdict": v, "trace": byid[tid]["ev"]}
        for k in v.get("known", []) or []:
            run.violation(f"{comp}: known deviation {k} reproduced (behaviour {json.dumps(beh.get('h'))[:200]})", rep, finding=k)
        if not v["ok"]:
            e = byid[tid]["ev"][v["l"] - 1] if 0 < v["l"] <= len(byid[tid]["ev"]) else {}
            key = f"{comp}:{v['clause']}"
            _written[key] = _written.get(key, 0) + 1
            if _written[key] > MAX_REPLAYS_PER_CLAUSE:      # same clause again: counted in the evidence, no further replay file
                run.cov.setdefault("further_violations_same_clause", {})[key] = _written[key] - MAX_REPLAYS_PER_CLAUSE
                continue
            run.violation(f"{comp}: the real module leaves the specification at event {v['l']} ({v['clause']}): {json.dumps(e)[:300]}", rep)


def check(run) -> None:
    quick = run.tier == "quick"
    run.cov["rule"] = ("a case = one TLC-generated behaviour (configuration + call history: exhaustive up to a length over the grid, plus "
                       "-simulate walks) executed on the real module, in one rendering of the written value (serial); distinct = distinct "
                       "(component, behaviour, rendering); every behaviour contains at least one call whose result or effect is checked")
    run.assumptions += [
        "numeric arguments are dyadic (multiples of 1/8) so the float, int and Fraction renderings denote the same real numbers",
        "Utils.map with float/int arguments is compared with tolerance 1e-9*(1+|exact*8|)/8 (stated in tla/Utils.tla: FloatClose); with "
        "fractions.Fraction arguments exactly",
        "the sleep argument may differ from ms/1000 by 1e-9 s (binary representation of ms/1000)",
        "a non-integer analog_write / potentiometer value may be stored / returned as either neighbouring integer (the property fixes "
        "clamping and range, not rounding)",
        "str(value) is computed by CPython in the harness (the reference for str); the specification receives it as UTF-8 bytes",
        "the serial backend is a recording fake of pyserial installed as Reduino.Communication.serial; time.sleep is replaced while "
        "sleep() runs; Core pin state is reset by clearing the three module-level dicts (asserted by the first event of every trace)",
        "non-finite numbers (inf, nan) are not generated",
    ]
    s = run.seed
    # ---- Core pins
    for g in (["quick"] if quick else ["deep", "wide"]):
        model_check("core", g, run)
    memory_law("tiny" if quick else "quick", 3, run)
    behs = sample(generate("core", "quick", 2, run), 1500 if quick else 100000, s)
    if not quick:
        behs += sample(generate("core", "tiny", 3, run), 12000, s)
    walks = sample(dedup(generate("core", "full", 10 if quick else 16, run, simulate=250 if quick else 4000, seed=s)), 250 if quick else 4000, s)
    conform("core", behs + walks + [with_universe("core", p) for p in PROBES["core"]], run, "hist")
    # ---- Utils
    model_check("utils", "quick" if quick else "full", run)
    behs = generate("utils", "quick" if quick else "full", 1, run)
    walks = sample(dedup(generate("utils", "full", 5 if quick else 8, run, simulate=120 if quick else 2500, seed=s)), 120 if quick else 2500, s)
    conform("utils", behs + walks, run, "calls", variants=(0, 1, 2, 3))
    # ---- sensors
    model_check("sensors", "quick" if quick else "full", run)
    behs = generate("sensors", "quick", 3, run) if quick else generate("sensors", "full", 2, run) + generate("sensors", "quick", 4, run)
    signals = generate("sensors", "button", 6 if quick else 8, run)
    walks = sample(dedup(generate("sensors", "full", 10 if quick else 16, run, simulate=100 if quick else 1000, seed=s)), 300 if quick else 6000, s)
    conform("sensors", behs + sample(signals, 1500 if quick else 100000, s) + walks + PROBES["sensors"], run, "hist")
    # ---- serial monitor
    model_check("serial", "quick" if quick else "full", run)
    behs = generate("serial", "quick", 3 if quick else 4, run)
    walks = sample(dedup(generate("serial", "full", 8 if quick else 12, run, simulate=60 if quick else 600, seed=s)), 400 if quick else 6000, s)
    conform("serial", behs + walks, run, "hist", variants=(0,) if quick else (0, 1, 2), extra_variant_sample=150 if quick else 0)


def replay(path: str) -> int:
    r = json.load(open(path))
    comp, beh, var = r["component"], r["behaviour"], r.get("variant", 0)
    t = make_trace(comp, with_universe(comp, beh), "replay", var)
    v = validate(COMP[comp]["trace"], COMP[comp]["trace"] + ".cfg", [t])["replay"]
    print(json.dumps(v))
    if not v["ok"]:
        print(f"VIOLATION property=C20 replay={path}")
        return 1
    return 0


def selftest(seed: int) -> int:
    """Negative controls: corrupt one logged field of an accepted trace / drop an event -> rejected at that event."""
    W = lambda pin, v: {"act": "digital_write", "pin": pin, "mode": "", "v": V("int", 8 * v)}  # noqa: E731
    R = lambda pin: {"act": "digital_read", "pin": pin, "mode": "", "v": _NV}  # noqa: E731
    s7 = {"k": "str", "l": "7"}
    cases = []

    def case(comp, beh, name, mutate, at, variant=0):
        t = make_trace(comp, with_universe(comp, beh), f"{comp}-{name}-orig", variant)
        c = copy.deepcopy(t)
        c["id"] = f"{comp}-{name}"
        mutate(c["ev"])
        cases.append((comp, t, c, at))

    core = {"h": [W(_P7, 1), R(s7), {"act": "analog_write", "pin": s7, "mode": "", "v": V("int", 2400)}, W(_P7, 0), R(_P7)]}
    case("core", core, "flip-observed-level", lambda ev: ev[2]["reads"][0].__setitem__("d", 0), 3)
    case("core", core, "drop-write-event", lambda ev: ev.pop(4), 5)          # the read after the dropped write(7, 0) shows 0, memory says 1
    case("core", core, "unclamped", lambda ev: [x.__setitem__("a", 300) for x in ev[3]["reads"] if x["l"] == "7"], 4)
    ut = [{"act": "map", "a": [40, 0, 80, 0, 800], "ty": "frac", "via": ""}, {"act": "sleep", "a": [2000], "ty": "int", "via": "inject"},
          {"act": "map", "a": [4096, 0, 8184, 0, 40], "ty": "float", "via": ""}]
    case("utils", ut, "map-off-by-one-unit", lambda ev: ev[0]["ret"].__setitem__("p", ev[0]["ret"]["p"] + 1), 1)
    case("utils", ut, "sleep-twice", lambda ev: ev[1]["sleeps"].append(dict(ev[1]["sleeps"][0])), 2)
    case("utils", ut, "sleep-1us-more", lambda ev: ev[1]["sleeps"][0].__setitem__("us", ev[1]["sleeps"][0]["us"] + 1), 2)
    case("utils", ut, "float-3e-8-off", lambda ev: ev[2]["ret"].__setitem__("f2", ev[2]["ret"]["f2"] + 3), 3)   # tolerance there: 2.1e-8
    T_, F_ = V("bool", 8), V("bool", 0)
    bt = {"cfg": {"kind": "button", "prov": True, "dflt": _NV},
          "h": [{"act": "is_pressed", "s": x} for x in (F_, T_, T_, F_, T_)]}
    case("sensors", bt, "extra-click", lambda ev: ev[2].__setitem__("clicks", 1), 3)
    case("sensors", bt, "drop-falling-edge-event", lambda ev: ev.pop(3), 4)  # without the release the last press is no rising edge
    pot = {"cfg": {"kind": "pot", "prov": True, "dflt": _NV}, "h": [{"act": "read", "s": V("int", 4096)}]}
    case("sensors", pot, "pot-value-off-by-one", lambda ev: ev[0].__setitem__("ret", ev[0]["ret"] + 8), 1)
    ser = {"cfg": {"baud": 9600, "port": "", "nl": [10], "backend": True},
           "h": [{"act": "new", "port": "", "txt": [], "emit": ""}, {"act": "connect", "port": "COM3", "txt": [], "emit": ""},
                 {"act": "write", "port": "", "txt": [52, 50], "emit": ""}, {"act": "close", "port": "", "txt": [], "emit": ""},
                 {"act": "write", "port": "", "txt": [104, 105], "emit": ""}]}
    case("serial", ser, "newline-dropped", lambda ev: ev[2]["calls"][0]["data"].pop(), 3)
    case("serial", ser, "drop-close-event", lambda ev: ev.pop(3), 4)         # a write after the dropped close must have been sent
    case("serial", ser, "return-differs", lambda ev: ev[2]["ret"]["b"].append(10), 3)
    bad = 0
    for comp in COMP:
        mine = [x for x in cases if x[0] == comp]
        ts = {}
        for _, t, c, _ in mine:
            ts[t["id"]] = t
            ts[c["id"]] = c
        v = validate(COMP[comp]["trace"], COMP[comp]["trace"] + ".cfg", list(ts.values()))
        for _, t, c, at in mine:
            ok = v[t["id"]]["ok"] and not v[c["id"]]["ok"] and v[c["id"]]["l"] == at
            print(f"{c['id']}: original accepted={v[t['id']]['ok']} corrupted -> {json.dumps(v[c['id']])} expected rejection at {at}: "
                  f"{'OK' if ok else 'FAILED'}")
            bad += 0 if ok else 1
    return 1 if bad else 0
