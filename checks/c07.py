"""C07 - every line is accounted for and stays in the block Python assigns it to.

Decided by the Layout specification (tla/Layout.tla: Python's INDENT/DEDENT block structure as a state machine over
physical lines, Ignorable(kind), Relayouts(skeleton)):
 (1) TLC model-checks the machine (all line sequences over an alphabet of indentations and line kinds): comment,
     blank and whitespace-only lines never change a block path, a dedent pops to an enclosing level, block paths
     form a prefix-extension chain, clause indices are in order.
 (2) Layout half.  TLC enumerates the re-layouts of 13 skeleton scripts (all with one deviation; pairs in the
     thorough tier; random walks with a deviation at many sites at once) and states, per layout, the block path
     of every numbered statement; invariant RelayoutPreservesStructure = the machine assigns the canonical paths
     to every re-layout.  Reference leg: CPython's ast of the layout must equal that of the canonical text and
     CPython's block paths must be the spec's (else SPEC-GAP).  Code leg: the real parse()+emit() of /repo's working
     tree; the place of every numbered statement in the Program IR and the digest of the emitted text go back to
     TLC (LayoutTrace), which replays the layout line by line through the machine and names the failing clause.
 (3) Accounting half.  TLC enumerates StatementKinds x Contexts; each script goes through the real transpiler;
     outcome translated / rejected / skipped (from the REDUINO_VERIF hook list when parser.py has it, else
     black-box: no exception and the payload absent from IR and C++); verdict by LayoutTrace against Ignorable."""
from __future__ import annotations

import copy
import json
import random

from harness import layout_rec as L
from harness.common import MachineryError
from harness.tlc import run_tlc, write_json
from harness.tracecheck import validate

LEVEL = "model_checking"
GEN_CONSTS = "CONSTANTS\n  Indents = {}\n  HKinds = {}\n  MaxLines = 0\n"
CLEAN_ONLY = "TRUE"
PAIRS_THOROUGH = "PairsThorough"        # defined in tla/LayoutGen.tla (cfg files cannot hold tuples)
MC_INVARIANTS = ["TypeOK", "StackStrictlyIncreasing", "PathDepthIsStackDepth", "ErrorIsAbsorbing", "PrefixChain",
                 "ClausesInOrder", "OpenersAreStatements"]
MC_PROPERTIES = ["CommentNeverMovesAnything", "DedentPopsToEnclosingLevel", "IndentOnlyAfterHeader", "AssignOnlyGrows"]
MC_ACTIONS = ["BlankOrComment", "Simple", "Header", "Dedent", "Reject"]


# ------------------------------------------------------------------------------------------------ TLC legs
def model_check(run, quick: bool) -> None:
    grids = [("IndentsQ", "HKindsQ", 4)] if quick else [("IndentsDef", "HKindsDef", 4), ("IndentsQ", "HKindsQ", 6)]
    for grid in grids:
        cfg = ("SPECIFICATION Spec\nCONSTANTS\n  Indents <- %s\n  HKinds <- %s\n  MaxLines = %d\n" % grid
               + "".join(f"INVARIANT {i}\n" for i in MC_INVARIANTS) + "".join(f"PROPERTY {p}\n" for p in MC_PROPERTIES)
               + "CHECK_DEADLOCK FALSE\n")
        res = run_tlc("LayoutMC", cfg, workers=8, timeout=1500, coverage=True)
        if not res.ok:
            raise MachineryError(f"LayoutMC: spec-level check failed: {res.error} {res.violated}\n{res.stdout[-2500:]}")
        never = [a for a in MC_ACTIONS if a in res.coverage and res.coverage[a][1] == 0]
        if never or not all(a in res.coverage for a in MC_ACTIONS):
            raise MachineryError(f"LayoutMC: action never taken or coverage missing (vacuous model): {never} {sorted(res.coverage)}")
        run.add_tlc(res, f"LayoutMC exhaustive model check: all line sequences of length <= {grid[2]} over {grid[0]} x {grid[1]}, "
                         f"{len(MC_INVARIANTS)} invariants + {len(MC_PROPERTIES)} action properties")


def generate_layouts(run, skel_file, maxdevs: int, pairs: str = "NoPairs", simulate: int | None = None, seed: int = 1) -> list[dict]:
    consts = GEN_CONSTS + f"  MaxDevs = {maxdevs}\n  PairWith <- {pairs}\n  CleanOnly = {CLEAN_ONLY}\n"
    if simulate is None:
        cfg = "INIT GInit\nNEXT GNext\n" + consts + "CONSTRAINT Emit\nINVARIANT RelayoutPreservesStructure\nINVARIANT SkeletonsWellFormed\nCHECK_DEADLOCK FALSE\n"
        res = run_tlc("LayoutGen", cfg, env={"SKEL_FILE": str(skel_file)}, workers=8, timeout=2400, heap="6g")
        label = f"LayoutGen: all re-layouts with <= {maxdevs} deviations (pairs {pairs})"
    else:
        cfg = "INIT WInit\nNEXT WNext\n" + consts + "CONSTRAINT EmitSim\nCHECK_DEADLOCK FALSE\n"
        res = run_tlc("LayoutGen", cfg, env={"SKEL_FILE": str(skel_file)}, workers=1, timeout=1500, simulate=f"num={simulate}",
                      depth=140, seed=seed)
        label = f"LayoutGen: {simulate} random walks over all sites (clean deviations only)"
    if not res.ok:
        raise MachineryError(f"LayoutGen failed ({'spec-level theorem ' + str(res.violated) if res.violated else res.error}): "
                             f"a generated re-layout is not accepted with the canonical paths\n{res.stdout[-2500:]}")
    lays = [x for x in res.json if isinstance(x, dict) and "lines" in x]
    if not lays:
        raise MachineryError(f"LayoutGen produced no layouts\n{res.stdout[-1500:]}")
    run.add_tlc(res, label)
    return lays


def generate_cases(run, skel_file) -> list[dict]:
    cfg = "INIT AInit\nNEXT GNext\n" + GEN_CONSTS + "  MaxDevs = 0\n  PairWith <- NoPairs\n  CleanOnly = FALSE\nCONSTRAINT EmitCase\nCHECK_DEADLOCK FALSE\n"
    res = run_tlc("LayoutGen", cfg, env={"SKEL_FILE": str(skel_file)}, workers=1, timeout=600)
    if not res.ok:
        raise MachineryError(f"LayoutGen (accounting cases) failed: {res.error}\n{res.stdout[-2000:]}")
    cases = [x for x in res.json if isinstance(x, dict) and "kind" in x]
    run.add_tlc(res, "LayoutGen: StatementKinds x Contexts")
    return cases


# ------------------------------------------------------------------------------------------------ layout half
def _norm(path) -> list:
    return [[st["o"], st["b"]] for st in path]


def _tla_path(path) -> list:
    return [{"o": o, "b": b} for o, b in path]


def _dedup(lays: list[dict]) -> list[dict]:
    seen, out = set(), []
    for lay in lays:
        k = (lay["sk"], json.dumps(sorted((d["w"], d["at"], d["v"]) for d in lay["devs"])))
        if k not in seen:
            seen.add(k)
            out.append(lay)
    return out


def layout_record(skels: list[dict], lay: dict, canon: dict, rid: str) -> tuple[dict | None, dict, str]:
    """-> (record for LayoutTrace | None if the reference leg disagrees, observation, spec-gap text)"""
    skel = skels[lay["sk"] - 1]
    obs = L.observe_layout(skel, lay)
    spec = {p["id"]: _norm(p["path"]) for p in lay["paths"]}
    ids = L.skeleton_ids(skel)["locatable"]
    c = canon[lay["sk"]]
    if lay["err"]:
        return None, obs, f"the Layout machine rejects its own re-layout ({lay['err']})"
    if obs["py_dump"] is None or obs["py_dump"] != c["py_dump"]:
        return None, obs, f"CPython's ast differs from the canonical one ({obs.get('py_err', 'different tree')})"
    for i in ids:
        if obs["py_paths"].get(i) != [spec[i]]:
            return None, obs, f"CPython places statement {i} at {obs['py_paths'].get(i)}, the spec at {spec[i]}"
    rec = {"id": rid, "what": "layout", "sk": lay["sk"], "devs": lay["devs"], "exc": obs["exc"],
           "same": obs["cpp"] is not None and obs["cpp"] == c["cpp"],
           "obs": [{"id": i, "at": [_tla_path(p) for p in obs["obs"].get(i, [])]} for i in ids]}
    return rec, obs, ""


def run_layouts(run, skels: list[dict], skel_file, lays: list[dict], label: str) -> None:
    canon = {}
    for lay in lays:
        if not lay["devs"] and lay["sk"] not in canon:
            canon[lay["sk"]] = L.observe_layout(skels[lay["sk"] - 1], lay)
    for k, skel in enumerate(skels, 1):
        if k not in canon:
            raise MachineryError(f"no canonical layout generated for skeleton {skel['name']}")
        if canon[k]["exc"] or canon[k]["cpp"] is None:
            raise MachineryError(f"the canonical layout of skeleton {skel['name']} is rejected by the transpiler: {canon[k]['exc']}")
    recs, meta, multi = [], {}, 0
    for n, lay in enumerate(lays):
        if len(lay["tags"]) >= 2:          # two or more known triggers in one stimulus: not evaluated (DESIGN 6.1)
            multi += 1
            continue
        rid = f"{label}-{n}"
        rec, obs, gap = layout_record(skels, lay, canon, rid)
        run.count(("layout", lay["sk"], json.dumps(lay["devs"], sort_keys=True)), nontrivial=bool(lay["devs"]))
        if rec is None:
            run.spec_gap(f"{skels[lay['sk'] - 1]['name']} {lay['devs']}: {gap}")
            continue
        recs.append(rec)
        meta[rid] = (lay, obs)
    run.cov.setdefault("layouts_with_two_known_triggers_not_evaluated", 0)
    run.cov["layouts_with_two_known_triggers_not_evaluated"] += multi
    if run.spec_gaps > max(5, 0.02 * len(lays)):
        raise MachineryError(f"{run.spec_gaps} spec gaps: the layout generator / renderer does not agree with CPython")
    verdicts = validate("LayoutTrace", "LayoutTrace.cfg", recs, run, label=f"layouts {label}", chunk=6000, env={"SKEL_FILE": str(skel_file)})
    if recs:
        lay, obs = meta[recs[len(recs) // 2]["id"]]
        run.sample({"skeleton": skels[lay["sk"] - 1]["name"], "deviations": lay["devs"], "script": obs["src"],
                    "spec_paths": {p["id"]: _norm(p["path"]) for p in lay["paths"]}, "verdict": verdicts[recs[len(recs) // 2]["id"]]}, limit=3)
    for rec in recs:
        v = verdicts[rec["id"]]
        lay, obs = meta[rec["id"]]
        name = skels[lay["sk"] - 1]["name"]
        if not v["ok"]:
            line = lay["lines"][v["l"] - 1] if 0 < v["l"] <= len(lay["lines"]) else None
            where = f"statement {line['id']}" if line and line.get("id") else "the emitted text"
            run.violation(f"layout: {v['clause']} ({where}) in skeleton {name} under re-layout {_show(lay['devs'])} "
                          f"[tags {sorted(t[0] for t in lay['tags'])}]",
                          {"what": "layout", "skeleton": name, "sk": lay["sk"], "devs": lay["devs"], "lines": lay["lines"],
                           "paths": lay["paths"], "tags": lay["tags"], "script": obs["src"], "clause": v["clause"], "at_line": v["l"],
                           "observed": rec["obs"], "exception": obs["exc"], "cpp_equal": rec["same"]})
        for k in v.get("known") or []:
            run.violation(f"layout: known deviation reproduced in skeleton {name} under re-layout {_show(lay['devs'])}", {}, finding=k)


def _show(devs: list[dict]) -> str:
    parts = [f"{d['w']}@{d['at']}={d['v']}" for d in devs]
    return ("+".join(parts[:8]) + (f"+... ({len(parts)} deviations, see replay)" if len(parts) > 8 else "")) or "canonical"


# ------------------------------------------------------------------------------------------------ accounting half
def run_accounting(run, skel_file) -> None:
    cases = generate_cases(run, skel_file)
    kinds = {c["kind"] for c in cases}
    if kinds != set(L.CATALOGUE) or {c["ctx"] for c in cases} != set(L.CONTEXTS):
        raise MachineryError(f"catalogue of harness/layout_rec.py and Layout!StatementKinds differ: {sorted(kinds ^ set(L.CATALOGUE))}")
    recs, meta = [], {}
    hook = L.hook_present()
    tally: dict = {}
    disagree: list[str] = []
    for c in sorted(cases, key=lambda c: (c["kind"], c["ctx"])):
        r = L.account(c["kind"], c["ctx"])
        rid = f"stmt-{c['kind']}-{c['ctx']}"
        recs.append({"id": rid, "what": "stmt", "kind": c["kind"], "ctx": c["ctx"], "outcome": r["outcome"], "pyok": r["pyok"]})
        meta[rid] = r
        run.count(("stmt", c["kind"], c["ctx"]), nontrivial=r["pyok"])
        key = r["outcome"] if r["pyok"] else "not-python"
        if r["outcome"] != "rejected" and r["blackbox"] != r["outcome"]:
            disagree.append(f"{c['kind']}/{c['ctx']}: hook says {r['outcome']}, black-box says {r['blackbox']}")
        tally[key] = tally.get(key, 0) + 1
    run.cov["accounting"] = {"hook_present": hook, "outcomes": tally, "hook_vs_blackbox_disagreements": disagree,
                             "mode": "skipped-lines list of the REDUINO_VERIF hook + payload check" if hook else
                                     "black-box (hook not in parser.py): no exception and payload absent from IR and C++ => skipped"}
    verdicts = validate("LayoutTrace", "LayoutTrace.cfg", recs, run, label="accounting", env={"SKEL_FILE": str(skel_file)})
    shown = 0
    for rec in recs:
        v, r = verdicts[rec["id"]], meta[rec["id"]]
        if shown < 1 and r["outcome"] == "skipped" and r["pyok"]:
            run.sample({"kind": r["kind"], "context": r["ctx"], "script": r["src"], "outcome": r["outcome"], "how": r["how"], "verdict": v}, limit=4)
            shown += 1
        if not v["ok"]:
            run.violation(f"accounting: {v['clause']}: `{r['line']}` ({r['kind']}) in context {r['ctx']} - {r['how']}",
                          {"what": "stmt", "kind": r["kind"], "ctx": r["ctx"], "script": r["src"], "outcome": r["outcome"], "how": r["how"],
                           "clause": v["clause"]})
        for k in v.get("known") or []:
            run.violation(f"accounting: `{r['line']}` ({r['kind']}, context {r['ctx']}) vanishes without a diagnostic", {}, finding=k)


# ------------------------------------------------------------------------------------------------ evidence only
OUTSIDE = [
    ("backslash continuation", "mon.write(1 + \\\n    2)\n", "mon.write(1 + 2)\n"),
    ("parenthesis continuation", "led.blink(\n    250,\n    2\n)\n", "led.blink(250, 2)\n"),
    ("multi-line docstring with a code-like line", "def f(a):\n    \"\"\"Turn it on.\n    led.on()\n    \"\"\"\n    mon.write(a)\nf(1)\n",
     "def f(a):\n    \"\"\"Turn it on.\"\"\"\n    mon.write(a)\nf(1)\n"),
]


def outside_property(run) -> None:
    """Logical lines that span physical lines are not among the re-layouts C07 lists: reported, never a verdict."""
    pre = "\n".join(L.ACC_PRE[:6]) + "\n"
    out = []
    for name, a, b in OUTSIDE:
        _pa, ca, ea, _ = L.transpile(pre + a)
        _pb, cb, eb, _ = L.transpile(pre + b)
        out.append({"form": name, "same_output_as_one_line_form": ca is not None and ca == cb, "exception": ea or eb or ""})
    run.cov["observations_outside_the_property"] = out


# ------------------------------------------------------------------------------------------------ entry points
def check(run) -> None:
    quick = run.tier == "quick"
    run.cov["rule"] = ("layout case = one re-layout (a set of deviations from the canonical layout: indent unit per block, inserted blank / "
                       "whitespace-only / comment line per gap and column, trailing comment, trailing whitespace, spacing variant per line) of "
                       "one of 13 skeletons, all single deviations exhaustively + random walks deviating at many sites (+ pairs in the thorough "
                       "tier); distinct = distinct (skeleton, deviation set), non-trivial = at least one deviation. accounting case = one "
                       "statement kind of the catalogue in one of 9 contexts (exhaustive); non-trivial = CPython compiles the script")
    run.assumptions += ["the ids 101..199 that locate a statement occur nowhere else in the IR (checked on every canonical layout: each id is found exactly once)",
                        "CPython's ast module is the reference for block structure; a layout on which it disagrees with the spec is a SPEC-GAP, never a violation",
                        "layouts carrying two or more instances of known-finding triggers are not evaluated (counted in the evidence)",
                        "scripts CPython rejects (return outside a function, continue outside a loop, ...) are outside the property and only counted"]
    model_check(run, quick)
    skels = L.skeleton_table()
    skel_file = write_json("skels.json", skels)
    lays = generate_layouts(run, skel_file, 1)
    run.cov["layouts_single_deviation"] = len(lays)
    walks = generate_layouts(run, skel_file, 0, simulate=400 if quick else 3000, seed=run.seed)
    lays = _dedup(lays + walks)
    run_layouts(run, skels, skel_file, lays, "s")
    if not quick:
        pairs = [p for p in generate_layouts(run, skel_file, 2, pairs=PAIRS_THOROUGH) if len(p["devs"]) == 2 or not p["devs"]]
        run.cov["layouts_two_deviations"] = len(pairs)
        run_layouts(run, skels, skel_file, pairs, "p")
    run_accounting(run, skel_file)
    outside_property(run)


def replay(path: str) -> int:
    r = json.load(open(path))
    skels = L.skeleton_table()
    skel_file = write_json("skels.json", skels)
    if r.get("what") == "stmt":
        a = L.account(r["kind"], r["ctx"])
        rec = {"id": "replay", "what": "stmt", "kind": r["kind"], "ctx": r["ctx"], "outcome": a["outcome"], "pyok": a["pyok"]}
        print(json.dumps({k: a[k] for k in ("kind", "ctx", "outcome", "how", "pyok")}))
    else:
        lay = {"sk": r["sk"], "devs": r["devs"], "lines": r["lines"], "paths": r["paths"], "tags": r.get("tags", []), "err": ""}
        canon_lines = [dict(ln, tc=0, tw=0, sp=0, ind=[4] * skels[r["sk"] - 1]["lines"][ln["ln"] - 1]["d"]) for ln in r["lines"] if ln["t"] == "stmt"]
        canon = {r["sk"]: L.observe_layout(skels[r["sk"] - 1], {"lines": canon_lines})}
        rec, obs, gap = layout_record(skels, lay, canon, "replay")
        if rec is None:
            print(f"SPEC-GAP {gap}")
            return 2
        print(obs["src"])
    v = validate("LayoutTrace", "LayoutTrace.cfg", [rec], env={"SKEL_FILE": str(skel_file)})["replay"]
    print(json.dumps(v))
    if not v["ok"]:
        print(f"VIOLATION property=C07 replay={path}")
        return 1
    return 0


def selftest(seed: int) -> int:
    """Negative controls: corrupt one observed field of an accepted record -> rejected at that statement, with the right clause."""
    from harness.result import Run
    run = Run("C07", "quick", seed)
    skels = L.skeleton_table()
    skel_file = write_json("skels.json", skels)
    lays = generate_layouts(run, skel_file, 1)
    canon = {lay["sk"]: L.observe_layout(skels[lay["sk"] - 1], lay) for lay in lays if not lay["devs"]}
    name2k = {s["name"]: k for k, s in enumerate(skels, 1)}
    rng = random.Random(seed)
    clean = [lay for lay in lays if lay["devs"] and not lay["tags"] and lay["sk"] == name2k["main-if-else"]]
    base, _obs, gap = layout_record(skels, rng.choice(clean), canon, "clean")
    assert base is not None, gap
    tests = [("clean", base, True, "")]

    def mut(name, fn, clause, src=base):
        c = copy.deepcopy(src)
        c["id"] = name
        fn(c)
        tests.append((name, c, False, clause))

    loc = {o["id"]: k for k, o in enumerate(base["obs"])}
    mut("moved-to-setup", lambda c: c["obs"][loc[107]].update(at=[[]]), "statement-moved-to-setup")        # 107 = first statement of loop()
    mut("dropped", lambda c: c["obs"][loc[110]].update(at=[]), "statement-missing")
    mut("duplicated", lambda c: c["obs"][loc[110]].update(at=c["obs"][loc[110]]["at"] * 2), "statement-duplicated")
    mut("wrong-branch", lambda c: c["obs"][loc[112]]["at"][0][1].update(b=0), "statement-in-wrong-branch")   # else suite -> if suite
    mut("left-block", lambda c: c["obs"][loc[109]].update(at=[c["obs"][loc[109]]["at"][0][:1]]), "statement-left-its-block")
    mut("digest", lambda c: c.update(same=False), "output-changed")
    mut("rejected", lambda c: c.update(exc="ValueError"), "layout-rejected")
    # a known trigger must not hide a different deviation of the same layout
    cut = next(lay for lay in lays if [t[0] for t in lay["tags"]] == ["top-header-trailing-comment"] and lay["sk"] == name2k["main-if-else"])
    kbase, _o, gap = layout_record(skels, cut, canon, "known-shape")
    assert kbase is not None, gap
    tests.append(("known-shape", kbase, True, ""))
    kloc = {o["id"]: k for k, o in enumerate(kbase["obs"])}
    mut("known+other-branch", lambda c: c["obs"][kloc[112]].update(at=[[{"o": 108, "b": 0}]]), "statement-moved-to-setup", src=kbase)
    mut("known+lost-statement", lambda c: c["obs"][kloc[113]].update(at=[]), "statement-missing", src=kbase)
    stmt = [("break-in-for", {"id": "break-in-for", "what": "stmt", "kind": "break", "ctx": "for", "outcome": "translated", "pyok": True}, True, ""),
            ("break-skipped", {"id": "break-skipped", "what": "stmt", "kind": "break", "ctx": "for", "outcome": "skipped", "pyok": True}, False, "silently-dropped"),
            ("pass-skipped", {"id": "pass-skipped", "what": "stmt", "kind": "pass", "ctx": "if", "outcome": "skipped", "pyok": True}, True, ""),
            ("device-call-skipped", {"id": "device-call-skipped", "what": "stmt", "kind": "led-method", "ctx": "main", "outcome": "skipped", "pyok": True}, False, "silently-dropped"),
            ("unknown-kind", {"id": "unknown-kind", "what": "stmt", "kind": "goto", "ctx": "if", "outcome": "skipped", "pyok": True}, False, "kind-not-in-catalogue"),
            ("odd-outcome", {"id": "odd-outcome", "what": "stmt", "kind": "sleep", "ctx": "if", "outcome": "lost", "pyok": True}, False, "outcome-not-classified")]
    v = validate("LayoutTrace", "LayoutTrace.cfg", [t[1] for t in tests] + [t[1] for t in stmt], env={"SKEL_FILE": str(skel_file)})
    bad = 0
    for name, _rec, want_ok, clause in tests + stmt:
        got = v[name]
        good = got["ok"] == want_ok and (want_ok or got["clause"] == clause)
        print(f"{'ok  ' if good else 'FAIL'} {name}: expected {'accept' if want_ok else 'reject ' + clause}, got {json.dumps(got)}")
        bad += 0 if good else 1
    # recorder control: the hook list, when present, must agree with the black-box outcome on every catalogue case
    if L.hook_present():
        dis = []
        for kind in L.CATALOGUE:
            for ctx in L.CONTEXTS:
                r = L.account(kind, ctx)
                if r["outcome"] != "rejected" and r["blackbox"] != r["outcome"]:
                    dis.append((kind, ctx))
        print(f"{'ok  ' if not dis else 'FAIL'} hook list vs black-box classification on {len(L.CATALOGUE) * len(L.CONTEXTS)} cases: disagreements {dis}")
        bad += 1 if dis else 0
    return 1 if bad else 0
