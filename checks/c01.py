"""C01 - reject-or-preserve: the firmware behaves as the Python source says (core language).

Decided by: the Lang specification (tla/Lang.tla - Python's meaning of the DSL subset, executed by TLC) as the
reference.  TLC enumerates the program families (tla/LangFamilies.tla: every binary/comparison operator x operand
pair, every control skeleton up to a node bound) and evaluates every candidate program in the spec first
(well-definedness, trigger tags); the clean stratum is packed into firmwares, executed on the mock Arduino core
and under CPython, and TLC (LangTrace) validates both recorded traces against the spec's trace: CPython must
agree (else the spec is wrong: SPEC-GAP), the firmware must agree or the script must have been rejected.
Known findings are probed by canonical programs whose deviation must match the recorded signature exactly."""
from __future__ import annotations

import json
import random

from harness import fw, lang, langcheck, langgen, langprobes
from harness.langcheck import Strata, judge, run_packed

LEVEL = "model_checking"


def check(run) -> None:
    quick = run.tier == "quick"
    run.cov["rule"] = ("a case = one program (or one snippet of a packed program) in the clean stratum (well-defined in the spec, no "
                       "known-finding trigger), executed as firmware and under CPython and judged by TLC; distinct = distinct snippet/"
                       "program x placement (setup / helper function / main loop); every case prints at least one value")
    run.assumptions += ["firmware semantics = emitted C++ compiled with host g++ against /verif/mock (int is 32 bit; programs whose ints leave "
                        "the AVR int range are ill-defined and discarded)",
                        "numbers compare as values (device prints float32 with 2 decimals; slack 0.0052), booleans as 1/0; formatting is not compared",
                        "a transpile-time rejection (ValueError) is conformant; a compile failure is C06's concern and counted here only"]
    counts: dict = {}
    st = Strata(run, "C01")
    # ---- TLC-enumerated expression families and control skeletons, packed
    snips = langgen.bin_snippets(langgen.family_cases("bin", run=run)) + langgen.bin_snippets(langgen.family_cases("cmp", run=run))
    snips += langgen.expr_family() + langgen.assign_family() + langgen.list_family()
    skel = langgen.skel_snippets(langgen.family_cases("skel", 2 if quick else 3, run))
    if not quick:
        rnd = random.Random(run.seed)
        skel = skel if len(skel) <= 2400 else rnd.sample(skel, 2400)
    snips += skel
    byid = {}
    singles = []
    for s in snips:
        p = langgen.single(s)
        byid[p["id"]] = s
        singles.append(p)
    clean = [byid[p["id"]] for p in st.split(singles, "snippets")]
    run_packed(run, clean, "setup", "snippet", counts, size=24)
    if st.solo:
        sres = lang.three_way(st.solo, run, "constructs the transpiler may refuse")
        for p in st.solo:
            run.count(f"solo:{p['id']}")
            judge(run, p, sres[p["id"]], "snippet", counts)
        st.solo = []
    modes = ["function", "loop"]
    sub = clean if not quick else random.Random(run.seed).sample(clean, min(240, len(clean)))
    for m in modes:
        run_packed(run, sub, m, "snippet", counts, size=24, prefix=f"pk{m[0]}")
    # ---- whole programs: helper functions, persistence across passes, seeded random programs
    whole = langgen.fn_programs() + langgen.persist_programs()
    g = langgen.Gen(random.Random(run.seed), floats=False)
    whole += [g.program(f"rndi{i}") for i in range(60 if quick else 600)]
    g2 = langgen.Gen(random.Random(run.seed + 1), ops=["+", "-", "*", "//", "%"], floats=False)
    whole += [g2.program(f"rndd{i}") for i in range(40 if quick else 400)]
    cleanw = st.split(whole, "programs")
    res = lang.three_way(cleanw, run, "whole programs")
    for p in cleanw:
        run.count(f"prog:{p['id']}")
        judge(run, p, res[p["id"]], "program", counts)
    if cleanw:
        run.sample({"family": "program", "script": langcheck.body_of(res[cleanw[0]["id"]]["src"])[:500], "spec_trace_len": res[cleanw[0]["id"]]["verdict"]["nout"]})
    # ---- constructs the Lang grammar does not have (comprehensions over range(start, stop, step)): the same scripts run as firmware
    # and under CPython, printed values compared (the reference is CPython alone here - no specification verdict)
    raw_values(run)
    # ---- known findings: canonical probes (exact signatures)
    langprobes.run_probes(run, "C01")
    run.cov["outcomes"] = counts
    run.cov["probe_stratum_candidates"] = {k: len(v) for k, v in st.probe.items()}
    if run.spec_gaps > max(3, 0.02 * max(1, run.cov["evaluations"])):
        from harness.common import MachineryError
        raise MachineryError(f"{run.spec_gaps} spec gaps: the Lang spec disagrees with CPython too often to judge")


RAW_VALUE_SCRIPTS = {
    "rawv-comp-strides": "xs = [i for i in range(10, 0, -2)]\nmon.write(len(xs) * 100 + xs[4])\nys = [i * i for i in range(7, 0, -3)]\nmon.write(len(ys) * 100 + ys[2])\n"
                         "zs = [i for i in range(2, 11, 4)]\nmon.write(len(zs) * 100 + zs[2])\nws = [i for i in range(9, -1, -4)]\nmon.write(len(ws) * 100 + ws[2])\n"
                         "us = [i + 1 for i in range(5, 5, -1)]\nmon.write(len(us))\nvs = [i for i in range(3, 8)]\nmon.write(len(vs) * 100 + vs[4])\n",
    "rawv-comp-runtime-bound": "n = 0\nwhile True:\n    n += 1\n    down = [i for i in range(10, n, -4)]\n    mon.write(len(down) * 100 + down[0])\n    up = [i for i in range(n, 11, 3)]\n    mon.write(len(up) * 100 + up[0])\n"
                               "    k = 0\n    for q in range(len(down)):\n        k += down[q]\n    mon.write(k)\n",
}


def _raw_value_job(item):
    from checks.c09 import RAW_HEADER
    name, body = item
    src = RAW_HEADER + body
    return name, src, fw.run_script({"src": src, "passes": 4}), lang.run_cpython(src, 4, [])


def raw_values(run, scripts=None) -> None:
    import concurrent.futures as cf
    with cf.ProcessPoolExecutor(max_workers=2) as ex:
        outs = list(ex.map(_raw_value_job, sorted((scripts or RAW_VALUE_SCRIPTS).items())))
    for name, src, r, py in outs:
        run.count("raw:" + name)
        if r["transpile"] != "accept" or r.get("compile") != "ok":
            run.notes.append(f"raw script {name} did not run ({r['transpile']} {r.get('msg') or ''} {r.get('compile') or ''}): nothing was judged on it")
            continue
        got = [e.get("v") for e in r.get("events", []) if e.get("e") == "w"]
        want = [t["toks"][0]["n"] for t in py.get("ev", []) if t.get("e") == "w" and t.get("toks")] if isinstance(py, dict) else None
        if want is not None and py.get("status", "ok") == "ok" and got != want:
            run.violation(f"{name}: the firmware prints {got[:16]}, CPython prints {want[:16]}", {"raw": name, "script": src})


def replay_raw(path: str, scripts, prop: str) -> int:
    r0 = json.load(open(path))
    if True:
        class _R:
            def __init__(self):
                self.violations, self.notes = [], []
            def count(self, *a, **k):
                pass
            def violation(self, what, rep=None, **k):
                if (rep or {}).get("raw") == r0["raw"]:
                    self.violations.append(what)
        rr = _R()
        raw_values(rr, scripts)
        print(json.dumps(rr.violations))
        if rr.violations:
            print(f"VIOLATION property={prop} replay={path}")
            return 1
        return 0


def replay(path: str) -> int:
    r0 = json.load(open(path))
    if "raw" in r0:
        return replay_raw(path, RAW_VALUE_SCRIPTS, "C01")
    r = json.load(open(path))
    p = r["program"]
    res = lang.three_way([p])[p["id"]]
    o = langcheck.outcome(res)
    print(json.dumps({"outcome": o, "verdict": {k: res["verdict"][k] for k in ("fw", "fwwhy", "py", "exp")}}))
    if o in ("mismatch", "run_fail"):
        print(f"VIOLATION property=C01 replay={path}")
        return 1
    return 0


def selftest(seed: int) -> int:
    """Negative control: a recorded firmware trace with one corrupted value / one dropped event must be rejected
    at that event by LangTrace."""
    from harness.lang import PROG, ASSIGN, WRITE, AREAD, BIN, V, I, SLEEP
    from harness.tlc import run_tlc, write_json
    p = PROG([ASSIGN("a", AREAD()), WRITE(BIN("+", V("a"), I(1))), SLEEP(I(5)), WRITE(BIN("*", V("a"), I(2)))], ain=[4], pid="st")
    r = lang.three_way([p])["st"]
    assert langcheck.outcome(r) == "ok", r["verdict"]
    recs = []
    for name, ev in (("orig", r["fw"]["ev"]), ("value", None), ("dropped", None)):
        q = lang.strip_for_tlc(p)
        q["id"] = name
        e = json.loads(json.dumps(r["fw"]["ev"]))
        if name == "value":
            e[2]["toks"][0]["n"] += 1
        if name == "dropped":
            del e[1]
        q["fw"] = {"status": "ok", "ev": e}
        q["py"] = {"status": "skip", "ev": []}
        q["decl"] = {}
        recs.append(q)
    res = run_tlc("LangTrace", "LangTrace.cfg", env={"PROGS_FILE": str(write_json("st.json", recs))}, workers=1)
    v = {x["id"]: (x["fw"], x["fwwhy"]) for x in res.json}
    print(v)
    return 0 if v["orig"][0] == 0 and v["value"][0] == 3 and v["dropped"][0] == 2 else 1
