"""X01 (extension, not one of the listed properties) - the Core pin helpers and Utils.map as FIRMWARE do what the host
modules document: pin_mode configures, digital_write drives truthy as HIGH, analog_write clamps to 0..255, map is the exact
affine map.  tla/CoreFw.tla states it; TLC checks the reference's own laws (CoreFwMC), enumerates call histories (CoreFwGen),
the histories are run as firmware with literal and run-time arguments and the per-call observations are validated by TLC
(CoreFwTrace).  Two deviations of the pinned tree are recorded in known/X01.json and matched exactly."""
from __future__ import annotations

import concurrent.futures as cf
import json

from harness import corefw, fw
from harness.common import MachineryError, NCPU
from harness.tlc import run_tlc
from harness.tracecheck import validate

LEVEL = "model_checking"
PACK = 40


def _job(args):
    return corefw.run_pack(*args)


def check(run) -> None:
    quick = run.tier == "quick"
    run.cov["rule"] = ("a case = one TLC-generated history of Core / map calls in one rendering (literal / run-time arguments), run as firmware; "
                       "distinct = distinct (history, rendering); every history has >= 1 call")
    run.assumptions += ["reference = the host modules' documented behaviour (CorePins / Utils of C20), not another execution",
                        "firmware = emitted C++ on the mock core; a float is printed with two decimals (tolerance 1/200)"]
    mc = run_tlc("CoreFwMC", "CoreFwMC.cfg", workers=2, timeout=300).need_ok()
    run.add_tlc(mc, "CoreFwMC: laws of the reference (map endpoints, whole results agree with integer arithmetic, clamp range) over the grids")
    gen = run_tlc("CoreFwGen", "INIT GInit\nNEXT GNext\nCONSTANT MaxLen = %d\nCONSTRAINT Emit\nCHECK_DEADLOCK FALSE\n" % (1 if quick else 2), workers=4, timeout=900)
    hs = sorted((o["h"] for o in gen.json if isinstance(o, dict) and "h" in o), key=lambda h: json.dumps(h))
    if not gen.ok or not hs:
        raise MachineryError(f"CoreFwGen: {gen.error}\n{gen.stdout[-800:]}")
    run.add_tlc(gen, "CoreFwGen: call histories")
    if not quick and len(hs) > 6000:
        import random
        hs = hs[:300] + random.Random(run.seed).sample(hs[300:], 5700)
    fw.ensure_runtime(False)
    jobs = [(hs[i:i + PACK], rt) for rt in (False, True) for i in range(0, len(hs), PACK)]
    with cf.ProcessPoolExecutor(max_workers=NCPU) as ex:
        results = list(ex.map(_job, jobs, chunksize=1))
    traces, meta = [], {}
    for (part, rt), r in zip(jobs, results):
        if "traces" not in r:
            run.violation(f"Core/map script is not accepted or does not compile ({r['transpile']} {r.get('msg') or ''} {r.get('stderr') or ''})"[:400],
                          {"histories": part[:3], "runtime": rt, "script": r["src"]})
            continue
        for h, tr in zip(part, r["traces"]):
            tid = f"x01-{len(traces)}-{'rt' if rt else 'lit'}"
            run.count(json.dumps([h, rt]))
            if tr is None:
                run.violation("firmware trace lacks its call markers", {"history": h, "runtime": rt, "script": r["src"]})
                continue
            traces.append({"id": tid, "ev": tr})
            meta[tid] = (h, rt, r["src"], r["inputs"])
    verdicts = validate("CoreFwTrace", "CoreFwTrace.cfg", traces, run, label="Core / map firmware traces")
    run.sample({"history": meta[traces[0]["id"]][0], "observation": traces[0]["ev"][:2]})
    for tid, v in verdicts.items():
        h, rt, src, inputs = meta[tid]
        for k in v.get("known") or []:
            run.violation(f"known deviation {k} reproduced, e.g. {json.dumps(h)[:160]} ({'run-time' if rt else 'literal'} arguments)", {}, finding=k)
        if not v["ok"]:
            t = next(x for x in traces if x["id"] == tid)
            run.violation(f"firmware Core/map call leaves the specification at call {v['l']} ({v['clause']}): {json.dumps(t['ev'][v['l'] - 1])[:300]}",
                          {"history": h, "runtime": rt, "verdict": v, "script": src, "inputs": inputs})


def replay(path: str) -> int:
    r = json.load(open(path))
    res = corefw.run_pack([r["history"]], r["runtime"])
    if "traces" not in res or res["traces"][0] is None:
        print(f"VIOLATION property=X01 replay={path}")
        return 1
    v = validate("CoreFwTrace", "CoreFwTrace.cfg", [{"id": "replay", "ev": res["traces"][0]}])["replay"]
    print(json.dumps(v))
    if not v["ok"]:
        print(f"VIOLATION property=X01 replay={path}")
        return 1
    return 0


def selftest(seed: int) -> int:
    """Negative controls: a corrupted observation must be rejected at that call."""
    h = [{"act": "analog_write", "a": [9, 127]}, {"act": "map", "a": [512, 0, 1023, 0, 255]}, {"act": "digital_write", "a": [5, 2]}]
    res = corefw.run_pack([h], False)
    ev = res["traces"][0]
    bad1 = json.loads(json.dumps(ev)); bad1[0]["o"]["aw"] = [128]
    bad2 = json.loads(json.dumps(ev)); bad2[2]["o"]["dw"] = [0]
    bad3 = json.loads(json.dumps(ev)); bad3[1]["o"]["ret"] = [130, 1]
    v = validate("CoreFwTrace", "CoreFwTrace.cfg", [{"id": "b1", "ev": bad1}, {"id": "b2", "ev": bad2}, {"id": "b3", "ev": bad3}])
    ok = (not v["b1"]["ok"] and v["b1"]["l"] == 1 and not v["b2"]["ok"] and v["b2"]["l"] == 3 and not v["b3"]["ok"] and v["b3"]["l"] == 2)
    print(json.dumps(v))
    return 0 if ok else 1
