"""C08 - device calls bind arguments exactly like the Python signatures do.

Decided by tla/Bind.tla (Python's call-argument binding as a machine: BindPositional / BindKeyword / FillDefault /
Fail, plus its closed form and the property's statement `ConventionIrrelevant`):
 1. TLC model-checks the machine over every well-formed signature with <= 3 (thorough: 4) parameters and every call
    shape over it (BindMC: machine == closed form, failures justified, every slot consumed once, order of default
    filling irrelevant, progress).
 2. TLC enumerates every call shape of every callable of the documented API (BindGen; signatures read from the host
    classes with inspect.signature at check time): positional prefix x subset of the remaining parameters by keyword
    x keyword order x omitted defaults, plus duplicate / unknown-keyword / alias / too-many-positionals shapes.
 3. Every shape is executed twice (harness/bind_rec.py): inspect.Signature.bind + apply_defaults on the host
    signature (reference leg) and the REAL Reduino.transpile.parser.parse on a minimal script, whose IR node fields
    are projected to "which parameter's literal does this field hold" (implementation leg).
 4. TLC validates the batch (BindTrace: runs the machine on each record's shape, then judges both legs; the
    invariants are evaluated on every state of these runs as well).  Reference != spec -> SPEC-GAP (never a
    violation); Python accepts + transpiler accepts + a field holds another value (or the call vanished) ->
    VIOLATION unless the deviation matches a listed known finding exactly; Python rejects + transpiler accepts ->
    counted only (outside the property)."""
from __future__ import annotations

import copy
import json
import os
from collections import Counter, defaultdict

from harness import bind_rec as B
from harness import tlc
from harness.common import MachineryError
from harness.tracecheck import validate

LEVEL = "model_checking"
MC_INVARIANTS = ["SigWellFormed", "TypeOK", "SlotUsedOnce", "PositionalInOrder", "KeywordByName", "DefaultOnlyIfDeclaredAndFree",
                 "FailureIsJustified", "TerminalIsDeclarative", "EverySlotConsumed", "ConventionIrrelevant", "Progress",
                 "DetEnabled", "Bounded"]
REC_KEYS = ("id", "c", "np", "kw", "ref", "st", "obs")
# thorough tier: every keyword order up to 6 keywords; the LCD constructor (11 keyword-only defaulted parameters:
# 401 920 shapes at 6, 76 k at 5) is capped at 5 to stay inside the budget on a loaded machine (C08_LCD_FULLPERM=6 lifts it)
LCD_CAP = int(os.environ.get("C08_LCD_FULLPERM", "5"))


# --------------------------------------------------------------------------------------------------- TLC steps
def model_check(run, maxn: int) -> None:
    cfg = (f"INIT Init{maxn}\nNEXT Next\nCONSTANTS\n  ShapeMode = \"all\"\n"
           + "".join(f"INVARIANT {i}\n" for i in MC_INVARIANTS) + "CHECK_DEADLOCK FALSE\n")
    res = tlc.run_tlc("BindMC", cfg, workers=8, timeout=1500)
    if not res.ok:
        raise MachineryError(f"BindMC (signatures up to {maxn} parameters): spec-level check failed: {res.error} {res.violated}\n{res.stdout[-2500:]}")
    run.add_tlc(res, f"BindMC exhaustive: every well-formed signature with <= {maxn} parameters x every call shape, {len(MC_INVARIANTS)} invariants")


def generate(run, sig_file, *, init: str = "GInit", emit: str = "Emit", mode: str = "enum", label: str = "") -> list:
    cfg = f"INIT {init}\nNEXT GNext\nCONSTANTS\n  ShapeMode = \"{mode}\"\nCONSTRAINT {emit}\nCHECK_DEADLOCK FALSE\n"
    res = tlc.run_tlc("BindGen", cfg, env={"SIGS_FILE": str(sig_file)}, workers=1, timeout=1500)
    if not res.ok:
        raise MachineryError(f"BindGen ({label}): shape enumeration failed: {res.error}\n{res.stdout[-2500:]}")
    if len(res.json) != res.generated:
        raise MachineryError(f"BindGen ({label}): {res.generated} shapes enumerated but {len(res.json)} read back")
    res.distinct = res.generated        # every initial state is a distinct shape; none is explored further here
    run.add_tlc(res, f"BindGen shape enumeration ({label})")
    return res.json


def judge(recs: list[dict], sig_file, run=None, label: str = "") -> dict:
    slim = [{k: r[k] for k in REC_KEYS} for r in recs]
    return validate("BindTrace", "BindTrace.cfg", slim, run, label=label, chunk=60000, workers=8, timeout=3000,
                    env={"SIGS_FILE": str(sig_file)})


def real_sigs(tier: str):
    cals = B.callables()
    sigs = B.sigs_json(cals)
    for s in sigs:
        s["fullperm"] = 4 if tier == "quick" else (LCD_CAP if s["name"] == "LCD" else 6)
    return cals, sigs


# --------------------------------------------------------------------------------------------------- reporting
def _mode(rec: dict, p: int) -> str:
    return "pos" if p <= rec["np"] else ("kw" if p in rec["kw"] else "omitted")


def binding_table(cals, recs, verdicts) -> list[dict]:
    """callable x parameter x passing mode -> set of outcomes over all shapes Python accepts."""
    agg: dict = defaultdict(lambda: defaultdict(Counter))
    for r in recs:
        v = verdicts[r["id"]]
        if not v["legal"]:
            continue
        cal = cals[r["c"] - 1]
        if not cal.params:
            agg[(cal.cid, "()")]["call"][r["st"] if r["st"] != "none" else "no-handler:" + r["dbg"]["actual"]] += 1
        for i, p in enumerate(cal.params):
            m = _mode(r, i + 1)
            if r["st"] == "rejected":
                out = "rejected"
            elif r["st"] == "none":
                out = "no-handler:" + r["dbg"]["actual"]
            elif r["st"] == "dropped":
                out = "dropped"
            elif r["obs"][i] == B.UNOBSERVED:
                out = "unobserved"
            elif r["obs"][i] == v["expect"][i]:
                out = "ok"
            else:
                out = "MIS-BOUND"
            agg[(cal.cid, p.name)][m][out] += 1
    rows = []
    for (cid, pname), modes in agg.items():
        rows.append({"callable": cid, "param": pname, **{m: dict(c) for m, c in modes.items()}})
    return rows


def _describe(cal, r, v) -> str:
    line = B.script(cal, r).splitlines()[-1]
    bits = []

    def name(t):
        return "its default" if t == 0 else ("the argument meant for " + cal.params[t - 1].name if t > 0 else "another value")
    for i, p in enumerate(cal.params):
        if r["obs"][i] != B.UNOBSERVED and r["obs"][i] != v["expect"][i]:
            bits.append(f"{p.name} holds {name(r['obs'][i])} (IR {r['dbg'].get('raw', {}).get(p.name)!r}), Python binds {name(v['expect'][i])}")
    return f"`{line}`: " + ("; ".join(bits) if bits else v["clause"])


def report(run, cals, recs, verdicts, *, impl: bool = True) -> None:
    gaps = [r for r in recs if verdicts[r["id"]]["gap"]]
    for r in gaps[:15]:
        cal = cals[r["c"] - 1]
        run.spec_gap(f"{cal.cid} shape np={r['np']} kw={r['kw']}: {verdicts[r['id']]['gap']} (inspect: {r['ref']}, spec: "
                     f"legal={verdicts[r['id']]['legal']} reason={verdicts[r['id']]['reason']} tok={verdicts[r['id']]['expect']})")
    run.spec_gaps += max(0, len(gaps) - 15)
    if len(gaps) > 0.02 * max(1, len(recs)):
        raise MachineryError(f"C08: the reference leg disagrees with tla/Bind.tla on {len(gaps)} of {len(recs)} shapes - the specification is wrong")
    if not impl:
        return
    shown = Counter()
    for r in recs:
        v = verdicts[r["id"]]
        cal = cals[r["c"] - 1]
        if v["legal"] and r["st"] != "none":
            run.count((cal.cid, r["np"], tuple(r["kw"])), nontrivial=True)
        else:
            run.count((cal.cid, r["np"], tuple(r["kw"])), nontrivial=False)
        if v["gap"]:        # the reference sides against the specification on this shape: dropped from the verdict
            continue
        rep = {"callable": cal.cid, "np": r["np"], "kw": r["kw"], "kw_names": [k for k, _ in B.call_args(cal, r)[1]],
               "script": B.script(cal, r), "status": r["st"], "observed": r["obs"], "expected": v["expect"],
               "ir": r["dbg"].get("raw"), "verdict": v}
        for tag in v["known"]:
            run.violation(_describe(cal, r, v), rep, finding=tag)
        if not v["ok"]:
            key = (cal.cid, v["clause"])
            shown[key] += 1
            if shown[key] <= 3 and sum(1 for k in shown if shown[k]) <= 60:
                run.violation(f"{cal.cid}: {_describe(cal, r, v)} [{v['clause']}]", rep)
    extra = {k: n for k, n in shown.items() if n > 3}
    if extra:
        run.notes.append("further violating shapes of the same (callable, clause), not written out: "
                         + ", ".join(f"{c} {cl}: {n - 3}" for (c, cl), n in sorted(extra.items())))


# --------------------------------------------------------------------------------------------------- check
def check(run) -> None:
    quick = run.tier == "quick"
    run.cov["rule"] = ("a case = one call shape of one callable (callable, number of positionals, ordered keyword list), enumerated by TLC "
                       "(positional prefix x subset of the other parameters by keyword x keyword order [all orders up to "
                       f"{'4' if quick else f'6 (LCD constructor: {LCD_CAP})'} keywords, rotations + reversal beyond] + duplicate / unknown / alias / too-many shapes), "
                       "executed by inspect.Signature.bind and by the real parser; distinct = distinct shapes; non-trivial = shapes Python accepts "
                       "on callables the transpiler handles (the others are counted but lie outside the property)")
    run.assumptions += [
        "signatures are read from the host classes of the working tree with inspect.signature; the table parameter -> IR field "
        "(harness/bind_rec.py) was built by reading transpile/parser.py and transpile/ast.py",
        "every parameter gets one literal, distinct from the other literals and from every default of the callable, so a field value identifies its source",
        "a rejection is any exception out of parse(); the class is recorded (SyntaxError instead of ValueError is noted, not judged)",
        "host-only parameters (simulation hooks, serial port of the PC) and methods without a transpiler handler are listed as unobserved, not judged",
        "keyword repeated twice (a SyntaxError before binding) is not a call shape",
    ]
    # 1. the specification itself
    model_check(run, 3 if quick else 4)
    # 2. reference leg on abstract signatures: every shape (also multi-defect ones) over every signature with <= 2 (3) parameters
    g = generate(run, tlc.write_json("nosigs.json", []), init="GInit2" if quick else "GInit3", emit="EmitSig", mode="all",
                 label="generic signatures, every shape")
    keys, gsigs, grecs = {}, [], []
    for i, s in enumerate(g):
        k = json.dumps(s["sig"], sort_keys=True)
        if k not in keys:
            keys[k] = len(gsigs) + 1
            gsigs.append({"name": "generic", "nalias": 0, "fullperm": 4, "params": s["sig"]})
        grecs.append({"id": f"g{i}", "c": keys[k], "np": s["np"], "kw": s["kw"], "ref": B.generic_reference(s["sig"], s),
                      "st": "none", "obs": [B.UNOBSERVED] * len(s["sig"]), "dbg": {"actual": "none"}})
    gfile = tlc.write_json("gsigs.json", gsigs)
    gv = judge(grecs, gfile, run, "generic signatures: inspect.Signature.bind vs Bind")

    class _G:  # minimal stand-in so that report() can name generic signatures
        def __init__(self, s):
            self.cid = "generic(" + ",".join(f"{p['name']}:{p['kind']}{'=d' if p['dflt'] else ''}" for p in s["params"]) + ")"
    report(run, [_G(s) for s in gsigs], grecs, gv, impl=False)
    run.cov["generic_reference"] = {"signatures": len(gsigs), "shapes": len(grecs), "legal": sum(v["legal"] for v in gv.values()),
                                    "reasons": dict(Counter(v["reason"] for v in gv.values() if not v["legal"]))}
    # 3. the documented API
    cals, sigs = real_sigs(run.tier)
    sfile = tlc.write_json("sigs.json", sigs)
    shapes = generate(run, sfile, label=f"{len(cals)} callables of the host API")
    per = Counter(s["c"] for s in shapes)
    missing = [c.cid for i, c in enumerate(cals) if per[i + 1] == 0]
    if missing:
        raise MachineryError(f"C08: no call shapes for {missing} (signature not well-formed for tla/Bind.tla?)")
    jobs = [(s["c"] - 1, {"np": s["np"], "kw": s["kw"]}, f"s{i}") for i, s in enumerate(shapes)]
    recs = B.records(jobs, workers=8)
    verdicts = judge(recs, sfile, run, "host API: inspect + real parser vs Bind")
    report(run, cals, recs, verdicts)
    # 3b. the same shapes of statement-form device methods inside a block, directly after a call that passes every parameter:
    #     a binding must not depend on the statement before it (an omitted argument is the default, not the previous value)
    ok_alone = {r["id"] for r in recs if r["st"] == "accepted" and verdicts[r["id"]]["legal"]}
    bjobs = [(c, sh, "b" + rid[1:], 1) for (c, sh, rid) in jobs if rid in ok_alone and B.primed(cals[c])]
    brecs = [r for r in B.records(bjobs, workers=8) if r["st"] != "unprimed"]
    if brecs:
        bverd = judge(brecs, sfile, run, "host API, call placed behind a priming call in a block")
        report(run, cals, brecs, bverd)
    run.cov["shapes_behind_priming_call"] = len(brecs)
    # 3c. the same shapes with blanks around the `=` of their keyword arguments (optional spacing must not change a binding)
    sjobs = [(c, sh, "k" + rid[1:], 2) for (c, sh, rid) in jobs if rid in ok_alone and sh["kw"]]
    srecs = B.records(sjobs, workers=8)
    if srecs:
        sverd = judge(srecs, sfile, run, "host API, keyword arguments spelled `name = value`")
        report(run, cals, srecs, sverd)
    run.cov["shapes_with_spaced_keywords"] = len(srecs)
    # 3d. list-valued arguments passed by name, the list mutated in place after the call
    ljobs = [(c, sh, "l" + rid[1:], 3) for (c, sh, rid) in jobs if rid in ok_alone and cals[c].form == "stmt" and "." in cals[c].cid
             and any(isinstance(lit.py, list) for lit in cals[c].lits)]
    lrecs = B.records(ljobs, workers=8)
    if lrecs:
        lverd = judge(lrecs, sfile, run, "host API, list arguments by name, mutated after the call")
        report(run, cals, lrecs, lverd)
    run.cov["shapes_with_lists_by_name"] = len(lrecs)
    # vacuity guards: every failure reason and every action of the machine was exercised on the real signatures
    reasons = Counter(v["reason"] for v in verdicts.values() if not v["legal"])
    if set(reasons) != {"too-many-positionals", "duplicate", "unknown-keyword", "missing-required"}:
        raise MachineryError(f"C08: enumeration does not reach every failure reason: {dict(reasons)}")
    legal = [r for r in recs if verdicts[r["id"]]["legal"]]
    if not any(0 in verdicts[r["id"]]["expect"] for r in legal) or not any(r["np"] for r in legal) or not any(r["kw"] for r in legal):
        raise MachineryError("C08: enumeration is vacuous (no default filled / no positional / no keyword)")
    canon_rejected = []
    for i, c in enumerate(cals):
        if not c.handled:
            continue
        mine = [r for r in legal if r["c"] == i + 1]
        if mine and not any(r["st"] == "accepted" for r in mine):
            canon_rejected.append(c.cid)
    if len(canon_rejected) > 6:
        raise MachineryError(f"C08: the transpiler accepted no call shape at all of {canon_rejected} - harness templates out of date?")
    # evidence
    st = Counter(r["st"] for r in legal)
    run.cov["shapes"] = {"total": len(recs), "python_accepts": len(legal), "python_rejects": len(recs) - len(legal),
                         "of_accepted_by_python": dict(st),
                         "transpiler_rejection_classes": dict(Counter(r["dbg"].get("exc") for r in legal if r["st"] == "rejected")),
                         "python_rejects_by_reason": dict(reasons)}
    extra = Counter(cals[r["c"] - 1].cid for r in recs if verdicts[r["id"]]["extra"])
    run.cov["accepted_although_python_rejects"] = {"count": sum(extra.values()), "by_callable": dict(sorted(extra.items())),
                                                   "note": "outside the property (only calling conventions Python accepts are covered): counted, not judged"}
    alias = Counter()
    for r in recs:
        cal = cals[r["c"] - 1]
        if verdicts[r["id"]]["extra"] and any(k > len(cal.params) for k in r["kw"]):
            for k in r["kw"]:
                if k > len(cal.params):
                    alias[f"{cal.cid}({cal.aliases[k - len(cal.params) - 1][0]}=)"] += 1
    run.cov["aliases_accepted"] = dict(alias)
    run.cov["unobserved_parameters"] = B.unobserved_table(cals)
    run.cov["never_accepted_callables"] = canon_rejected
    run.cov["binding_table"] = binding_table(cals, recs, verdicts)
    for r in legal:
        if r["st"] == "accepted" and r["kw"] and r["np"]:
            cal = cals[r["c"] - 1]
            run.sample({"callable": cal.cid, "call": B.script(cal, r).splitlines()[-1], "inspect": r["ref"]["tok"], "ir": r["dbg"].get("raw"),
                        "observed_tokens": r["obs"], "spec_tokens": verdicts[r["id"]]["expect"]})


# --------------------------------------------------------------------------------------------------- replay / selftest
def _one(cid: str, np_: int, kw: list, tier: str = "quick"):
    cals, sigs = real_sigs(tier)
    idx = {c.cid: i for i, c in enumerate(cals)}
    if cid not in idx:
        raise MachineryError(f"C08 replay: unknown callable {cid}")
    sfile = tlc.write_json("sigs.json", sigs)
    rec = B.record(idx[cid], {"np": np_, "kw": kw}, "replay")
    return cals[idx[cid]], rec, sfile


def replay(path: str) -> int:
    r = json.load(open(path))
    cal, rec, sfile = _one(r["callable"], r["np"], r["kw"])
    v = judge([rec], sfile)["replay"]
    print(B.script(cal, rec), end="")
    print(json.dumps({"status": rec["st"], "observed": rec["obs"], "ir": rec["dbg"].get("raw"), "inspect": rec["ref"], "verdict": v}))
    if v["gap"]:
        print(f"SPEC-GAP property=C08 {v['gap']}")
    if not v["ok"]:
        print(f"VIOLATION property=C08 replay={path}")
        return 1
    return 0


def selftest(seed: int) -> int:
    """Negative controls: corrupt one logged field of an accepted record -> rejected at that parameter; drop the node;
    corrupt the reference leg -> reported as a gap; a known deviation with a different observed value -> not known."""
    cal, ok_rec, sfile = _one("RGBLed.set_color", 1, [3, 2])
    _, on_rec, _ = _one("RGBLed.on", 0, [2])
    _, lcd_rec, _ = _one("LCD.progress", 2, [6, 3])
    cases = []

    def case(name, rec, expect):
        rec = copy.deepcopy(rec)
        rec["id"] = name
        cases.append((name, rec, expect))
        return rec

    case("original", ok_rec, lambda v: v["ok"] and not v["gap"] and not v["known"])
    c = case("swap-two-fields", ok_rec, lambda v: not v["ok"] and v["clause"] == "misbound:red")
    c["obs"][0], c["obs"][1] = c["obs"][1], c["obs"][0]
    c = case("field-holds-default", lcd_rec, lambda v: not v["ok"] and v["clause"] == "misbound:label")
    c["obs"][5] = 0
    c = case("node-dropped", ok_rec, lambda v: not v["ok"] and v["clause"] == "dropped")
    c["st"] = "dropped"
    c = case("ref-binding-corrupted", ok_rec, lambda v: v["gap"].startswith("ref-binding:blue"))
    c["ref"]["tok"][2] = 0
    c = case("ref-legality-flipped", ok_rec, lambda v: v["gap"] == "ref-legality")
    c["ref"] = {"ok": False, "reason": "duplicate", "tok": []}
    case("known-exact", on_rec, lambda v: v["ok"] and v["known"] == ["kw-ignored:RGBLed.on.green"])
    c = case("known-but-different-value", on_rec, lambda v: not v["ok"] and v["clause"] == "misbound:green")
    c["obs"][1] = 1
    c = case("known-plus-other-param", on_rec, lambda v: not v["ok"] and v["clause"] == "misbound:red" and v["known"] == ["kw-ignored:RGBLed.on.green"])
    c["obs"][0] = 3
    v = judge([x[1] for x in cases], sfile)
    bad = 0
    for name, rec, expect in cases:
        good = bool(expect(v[name]))
        bad += not good
        print(("ok  " if good else "FAIL"), name, json.dumps(v[name]))
    return 1 if bad else 0
