"""C17 - LCD text: same characters in the same cells on device and host, never off-row; progress bar; backlight; glyphs.

Decided by tla/LCDText.tla (cell matrix, backlight, glyph slots, progress history; one action per LCD method):
 (1) TLC model-checks the specification's own laws (NeverOffRow, NeverBeyondWidth, OtherRowsUntouched,
     AlignmentLaw, ProgressMonotoneSaturating, BacklightLaw, GlyphRows5bit, FailedCallLeavesState,
     CanonicalIsAllowed) exhaustively: every text over {a,b} of length 0..cols+2, every start column, row,
     alignment and clear flag on cols 1..4(5) x rows 1..2 from a matrix in which every cell is distinguishable;
     the closure under call sequences of every length on a reduced alphabet; progress and backlight/glyph grids;
 (2) TLC generates call histories (random walks over every geometry cols {1..5,8,16,20,40} x rows 1..4 x wirings,
     and the exhaustive small text grid);
 (3) every history is executed on the real host class AND as firmware (packed scripts, literal and run-time
     arguments; transpiled by /repo's working tree, compiled against the mock HD44780);
 (4) both traces are validated by TLC against the same specification.  Text placement is a function of the call
     there, so two accepted traces of one history have identical cell matrices; progress `filled` is a membership
     test in the allowed set; listed deviations of the pinned tree are matched exactly by named predicates."""
from __future__ import annotations

import concurrent.futures as cf
import copy
import json
import os
import random

from harness import fw, lcd_text
from harness.common import NCPU, MachineryError
from harness.tlc import run_tlc
from harness.tracecheck import validate

LEVEL = "model_checking"
PACK = 12
INVARIANTS = ["NeverOffRow", "NeverBeyondWidth", "OtherRowsUntouched", "AlignmentLaw", "CanonicalIsAllowed",
              "ProgressMonotoneSaturating", "BacklightLaw", "GlyphRows5bit"]
GEN_CONSTS = ('  Sides = {"host"}\n  MaxOps = 0\n  Extra = 2\n  Alphabet <- AB\n  Marked = FALSE\n')


# ------------------------------------------------------------------------------------------- model checking
def mc_cfg(geoms: str, facet: str, maxops: int, alphabet: str, marked: bool) -> str:
    return ("SPECIFICATION MCSpec\nCONSTANTS\n"
            f'  Geoms <- {geoms}\n  Sides = {{"host", "fw"}}\n  Facet = "{facet}"\n  MaxOps = {maxops}\n  Extra = 2\n'
            f"  Alphabet <- {alphabet}\n  Marked = {'TRUE' if marked else 'FALSE'}\n"
            + "".join(f"INVARIANT {i}\n" for i in INVARIANTS) + "PROPERTY FailedCallLeavesState\nCHECK_DEADLOCK FALSE\n")


def model_check(run) -> None:
    quick = run.tier == "quick"
    single = ("text, single call, every text over {a,b} up to cols+2 / column / row / alignment / clear flag, from the %s matrix, %s")
    jobs = [
        (single % ("marked", "cols 1..3 x rows 1..2 and 4x1"), mc_cfg("GA1", "text", 1, "AB", True), 2, 20000),
        (single % ("marked", "4x2"), mc_cfg("GA2", "text", 1, "AB", True), 2, 20000),
        ("text, closure under call sequences of every length, texts a^0..a^(cols+2), " + ("2x2 3x1 3x2" if quick else "cols 1..4 x rows 1..2"),
         mc_cfg("GSeq" if quick else "GSeqT", "text", 0, "A1", False), 2, 100),
        ("progress, sequences of <= 3 bars, value -1..5 x max {-1,0,1,2,4} x width x label, filled chosen freely in FillSet",
         mc_cfg("GProg", "progress", 3, "A1", False), 2, 1000),
        ("display/backlight/brightness/glyph, closure, three wirings",
         mc_cfg("Wirings", "devices", 0, "A1", False), 2, 500),
    ]
    if not quick:
        jobs += [(single % ("marked", "5x1"), mc_cfg("GA3", "text", 1, "AB", True), 2, 20000),
                 (single % ("marked", "5x2"), mc_cfg("GA4", "text", 1, "AB", True), 2, 20000),
                 (single % ("blank", "cols 1..4 x rows 1..2"), mc_cfg("G14", "text", 1, "AB", False), 2, 20000),
                 (single % ("blank", "5x2"), mc_cfg("GA4", "text", 1, "AB", False), 2, 20000),
                 ("text, sequences of <= 2 calls over {a,b}, cols 1..3", mc_cfg("G13", "text", 2, "AB", False), 4, 20000)]
    with cf.ThreadPoolExecutor(max_workers=5) as ex:
        futs = [ex.submit(run_tlc, "LCDTextMC", cfg, workers=w, timeout=2400) for (_l, cfg, w, _m) in jobs]
        for (label, _cfg, _w, minstates), f in zip(jobs, futs):
            res = f.result()
            if not res.ok:
                raise MachineryError(f"LCDTextMC ({label}): spec-level check failed: {res.error} {res.violated}\n{res.stdout[-2500:]}")
            if res.generated < minstates:
                raise MachineryError(f"LCDTextMC ({label}): only {res.generated} transitions - vacuous model")
            run.add_tlc(res, f"LCDTextMC {label}; {len(INVARIANTS)} invariants + FailedCallLeavesState")


# ------------------------------------------------------------------------------------------- generation
def gen_walks(run, num: int, length: int, seed: int, geoms: str = "AllGeoms") -> list:
    cfg = (f'INIT GInit\nNEXT GWalk\nCONSTANTS\n  Geoms <- {geoms}\n  Facet = "none"\n{GEN_CONSTS}  MaxLen = {length}\nCHECK_DEADLOCK FALSE\n')
    res = run_tlc("LCDTextGen", cfg, workers=1, timeout=900, simulate=f"num={num}", depth=length + 2, seed=seed)
    if not res.ok:
        raise MachineryError(f"LCDTextGen: walk generation failed: {res.error}\n{res.stdout[-2000:]}")
    hs = [x for x in res.json if isinstance(x, dict) and len(x.get("h", [])) == length]
    if len(hs) < num // 2:
        raise MachineryError(f"LCDTextGen: {len(hs)} walks instead of {num}\n{res.stdout[-1500:]}")
    run.add_tlc(res, f"LCDTextGen {num} random walks of {length} calls over {geoms}, seed {seed}")
    return hs


def gen_small(run, geoms: str, chunk: int, seed: int, cap: int | None) -> list:
    """Every call of the exhaustive text grid (BFS, one call from the blank display), chunked into histories."""
    cfg = (f'INIT GInit\nNEXT GNext\nCONSTANTS\n  Geoms <- {geoms}\n  Facet = "text"\n{GEN_CONSTS}  MaxLen = 1\nCONSTRAINT Emit\nCHECK_DEADLOCK FALSE\n')
    res = run_tlc("LCDTextGen", cfg, workers=4, timeout=1500)
    if not res.ok:
        raise MachineryError(f"LCDTextGen: grid generation failed: {res.error}\n{res.stdout[-2000:]}")
    run.add_tlc(res, f"LCDTextGen exhaustive single calls of the text grid over {geoms}")
    by: dict = {}
    for x in res.json:
        if isinstance(x, dict) and len(x.get("h", [])) == 1:
            by.setdefault(json.dumps(x["g"], sort_keys=True), []).append(x["h"][0])
    if not by:
        raise MachineryError("LCDTextGen: empty grid")
    rnd = random.Random(seed)
    out = []
    for gk in sorted(by):
        calls = sorted(by[gk], key=lambda c: json.dumps(c, sort_keys=True))
        rnd.shuffle(calls)
        for i in range(0, len(calls), chunk):
            out.append({"g": json.loads(gk), "h": calls[i:i + chunk]})
    run.cov["grid_calls"] = sum(len(v) for v in by.values())
    if cap is not None and len(out) > cap:
        out = rnd.sample(out, cap)
    return out


def G(cols, rows, wiring="parallel", blpin=False):
    return {"cols": cols, "rows": rows, "wiring": wiring, "blpin": blpin}


def C(act, i=(), t=(), s=(), b=()):
    return {"act": act, "i": list(i), "t": [list(x) for x in t], "s": list(s), "b": list(b)}


def txt(sv: str) -> list:
    return [ord(ch) for ch in sv]


def probes() -> list:
    """Minimal stimuli: one per listed deviation (probe stratum) and their in-range neighbours (must be clean)."""
    return [
        {"g": G(16, 1), "h": [C("message", t=[txt("top"), txt("bottom")], s=["left", "left"], b=[True, True, True])], "probe": "lcd-message-bottom-on-one-row"},
        {"g": G(16, 2), "h": [C("message", t=[txt("top"), txt("bottom")], s=["left", "left"], b=[True, True, True])], "probe": None},
        {"g": G(16, 1), "h": [C("message", t=[txt("top"), []], s=["center", "left"], b=[True, True, False])], "probe": None},
        {"g": G(16, 2), "h": [C("line", i=[0], t=[txt("keep")], s=["left"], b=[True]), C("write", i=[0, 2], t=[txt("x")], s=["left"], b=[True])],
         "probe": "lcd-row-out-of-range-redirected"},
        {"g": G(16, 2), "h": [C("line", i=[0], t=[txt("keep")], s=["left"], b=[True]), C("write", i=[0, 1], t=[txt("x")], s=["left"], b=[True])], "probe": None},
        {"g": G(8, 1), "h": [C("progress", i=[0, 5, 0, 0], t=[[]], s=["hash"], b=[False])], "probe": "lcd-progress-nonpositive-max"},
        {"g": G(8, 1), "h": [C("progress", i=[0, 4, 4, 0], t=[[]], s=["hash"], b=[True])], "probe": "lcd-progress-nonpositive-width"},
        {"g": G(8, 1), "h": [C("progress", i=[0, 1, 2, 3], t=[[]], s=["hash"], b=[True]), C("progress", i=[0, 2, 4, 8], t=[[]], s=["block"], b=[True]),
                             C("progress", i=[0, 5, 2, 1], t=[[]], s=["dot"], b=[True]), C("progress", i=[0, 1, 2, 1], t=[[]], s=["pipe"], b=[True])], "probe": None},
        {"g": G(16, 2, "parallel", True), "h": [C("brightness", i=[300]), C("backlight", b=[False]), C("brightness", i=[40]), C("display", b=[True]),
                                                C("glyph", i=[0], t=[[0, 2, 5, 8, 8, 5, 2, 255]])], "probe": None},
        # the same call again after something else has written over its cells (a call draws what it is told to draw, whatever was
        # drawn before); the same call on two displays of one wiring; a label swapped for another one of the same length
        {"g": G(16, 2), "h": [C("progress", i=[0, 7, 10, 16], t=[[]], s=["hash"], b=[True]), C("line", i=[0], t=[txt("over")], s=["left"], b=[True]),
                              C("progress", i=[0, 7, 10, 16], t=[[]], s=["hash"], b=[True])], "probe": None},
        {"g": G(16, 2), "h": [C("progress", i=[1, 3, 10, 8], t=[txt("ab")], s=["block"], b=[True]), C("clear"), C("progress", i=[1, 3, 10, 8], t=[txt("ab")], s=["block"], b=[True]),
                              C("progress", i=[1, 3, 10, 8], t=[txt("cd")], s=["block"], b=[True])], "probe": None},
        {"g": G(16, 2, "i2c"), "h": [C("progress", i=[0, 7, 10, 16], t=[[]], s=["hash"], b=[True]), C("write", i=[2, 0], t=[txt("zz")], s=["left"], b=[False]),
                                     C("progress", i=[0, 7, 10, 16], t=[[]], s=["hash"], b=[True])], "probe": None},
        {"g": G(16, 2, "i2c"), "h": [C("progress", i=[0, 7, 10, 16], t=[[]], s=["hash"], b=[True])], "probe": None},
        {"g": G(16, 2, "i2c"), "h": [C("progress", i=[0, 7, 10, 16], t=[[]], s=["hash"], b=[True])], "probe": None},
        {"g": G(16, 2), "h": [C("line", i=[1], t=[txt("same")], s=["center"], b=[True]), C("clear"), C("line", i=[1], t=[txt("same")], s=["center"], b=[True]),
                              C("message", t=[txt("t"), txt("b")], s=["left", "left"], b=[True, True, True]), C("clear"),
                              C("message", t=[txt("t"), txt("b")], s=["left", "left"], b=[True, True, True])], "probe": None},
        # wide displays (the property covers up to 40 columns): a long row is cleared to its end
        {"g": G(40, 2), "h": [C("line", i=[0], t=[txt("0123456789012345678901234567890123456789")], s=["left"], b=[True]), C("line", i=[0], t=[txt("short")], s=["left"], b=[True]),
                              C("write", i=[36, 1], t=[txt("tail")], s=["left"], b=[True]), C("progress", i=[1, 1, 10, 8], t=[[]], s=["hash"], b=[True])], "probe": None},
        {"g": G(33, 1, "i2c"), "h": [C("write", i=[30, 0], t=[txt("xyz")], s=["left"], b=[True]), C("line", i=[0], t=[txt("a")], s=["right"], b=[True]),
                                     C("line", i=[0], t=[txt("b")], s=["left"], b=[True])], "probe": None},
    ]


# ------------------------------------------------------------------------------------------- execution
def _job(args):
    cases, runtime = args
    return lcd_text.run_pack(cases, runtime)


def in_range(g: dict, e: dict) -> bool:
    if e["act"] == "write":
        return 0 <= e["i"][1] < g["rows"] and 0 <= e["i"][0] < g["cols"]
    if e["act"] in ("line", "progress"):
        return 0 <= e["i"][0] < g["rows"]
    return True


def host_raises_somewhere(case: dict) -> bool:
    return any(e["res"] == "raise" for e in lcd_text.host_trace(case["g"], case["h"]))


def execute(cases: list, run, label: str, rt_every: int = 3) -> None:
    """Run every case on the host class and as firmware; validate all traces; report."""
    traces, meta = [], {}
    for k, case in enumerate(cases):
        tid = f"{label}-{k}-host"
        traces.append({"id": tid, "side": "host", "g": case["g"], "ev": lcd_text.host_trace(case["g"], case["h"])})
        meta[tid] = (case, None, None, None)
        run.count(tid)
    fw.ensure_runtime(False)
    packed = [(k, c) for k, c in enumerate(cases) if not lcd_text.expect_reject(c)]
    single = [(k, c) for k, c in enumerate(cases) if lcd_text.expect_reject(c)]
    jobs = []
    for runtime in (False, True):
        sel = packed if not runtime else [kc for n, kc in enumerate(packed) if n % rt_every == 0]
        for i in range(0, len(sel), PACK):
            jobs.append((sel[i:i + PACK], runtime))
        for kc in single[:40]:
            jobs.append(([kc], runtime))
    with cf.ProcessPoolExecutor(max_workers=min(NCPU, 8)) as ex:
        results = list(ex.map(_job, [([c for _k, c in part], rt) for part, rt in jobs], chunksize=1))
        redo = []
        for (part, rt), r in zip(jobs, results):
            if "traces" not in r and len(part) > 1:
                redo += [([kc], rt) for kc in part]
        rres = list(ex.map(_job, [([c for _k, c in part], rt) for part, rt in redo], chunksize=1)) if redo else []
    for (part, rt), r in list(zip(jobs, results)) + list(zip(redo, rres)):
        if "traces" not in r:
            if len(part) > 1:
                continue                      # re-run one by one above
            k, case = part[0]
            tid = f"{label}-{k}-{'rt' if rt else 'lit'}"
            run.count(tid)
            if r["transpile"] == "reject" and (lcd_text.expect_reject(case) or host_raises_somewhere(case)):
                run.cov["rejected_invalid_histories"] = run.cov.get("rejected_invalid_histories", 0) + 1
                continue                      # a call the host refuses too, refused at transpile time: never reaches the display
            what = (f"valid LCD call history refused by the transpiler ({r.get('cls')}: {r.get('msg')})" if r["transpile"] == "reject"
                    else f"transpiler {r['transpile']} ({r.get('cls')}: {r.get('msg')})" if r["transpile"] != "accept"
                    else f"emitted firmware does not compile: {r.get('stderr', '')[-300:]}")
            run.violation(what, {"g": case["g"], "history": case["h"], "side": "fw", "runtime": rt, "script": r["src"]})
            continue
        for (k, case), tr in zip(part, r["traces"]):
            tid = f"{label}-{k}-{'rt' if rt else 'lit'}"
            run.count(tid)
            if tr is None:
                run.violation("firmware trace lacks its call markers or the display was created with another geometry "
                              "(statements lost, reordered or mis-bound)", {"g": case["g"], "history": case["h"], "side": "fw", "runtime": rt, "script": r["src"]})
                continue
            traces.append({"id": tid, "side": "fw", "g": case["g"], "ev": tr})
            meta[tid] = (case, rt, r["src"], r["inputs"])
    verdicts = validate("LCDTextTrace", "LCDTextTrace.cfg", traces, run, label=f"LCDText {label} (host + firmware)", chunk=1500)
    byid = {t["id"]: t for t in traces}
    run.sample({"geometry": cases[0]["g"], "history": cases[0]["h"][:3], "host_trace_first_call": {k: v for k, v in traces[0]["ev"][1].items() if k in ("act", "res", "cell")}})
    # cross-side bookkeeping (information only - the verdict is TLC's): cell matrices of both accepted sides, call by call
    same = diff = 0
    for tid, v in verdicts.items():
        case, rt, src, inputs = meta[tid]
        t = byid[tid]
        for kf in v.get("known") or []:
            run.violation(f"listed deviation {kf} reproduced on {t['g']['cols']}x{t['g']['rows']} ({'run-time' if rt else 'literal'} arguments)", {}, finding=kf)
        if case.get("probe") and t["side"] == "fw" and v["ok"] and case["probe"] not in (v.get("known") or []):
            run.notes.append(f"probe {case['probe']} no longer deviates ({'run-time' if rt else 'literal'} arguments)")
        if not v["ok"]:
            e = t["ev"][v["l"] - 1]
            run.violation(f"{t['side']} LCD leaves the specification at call {v['l'] - 1} ({v['clause']}) on {t['g']['cols']}x{t['g']['rows']} "
                          f"{t['g']['wiring']}: {json.dumps({k: e[k] for k in ('act', 'i', 't', 's', 'b', 'res', 'cell', 'pin', 'off', 'clamped')})[:420]}",
                          {"g": case["g"], "history": case["h"], "side": t["side"], "runtime": rt, "verdict": v, "script": src, "inputs": inputs, "trace": t["ev"]})
        elif t["side"] == "host" and not (v.get("known")):
            other = byid.get(tid[:-4] + "lit")
            vo = verdicts.get(tid[:-4] + "lit")
            if other and vo and vo["ok"] and not vo.get("known"):
                for a, b in zip(t["ev"][1:], other["ev"][1:]):
                    if a["cell"] != b["cell"]:      # progress half cell / column out of range: the matrices part ways within the latitude
                        diff += 1
                        break
                    same += 1
    run.cov["calls_with_identical_cell_matrices_on_both_sides"] = run.cov.get("calls_with_identical_cell_matrices_on_both_sides", 0) + same
    run.cov["histories_parting_within_latitude(progress_half_cell,column_out_of_range)"] = \
        run.cov.get("histories_parting_within_latitude(progress_half_cell,column_out_of_range)", 0) + diff


def check(run) -> None:
    quick = run.tier == "quick"
    run.cov["rule"] = ("a case = one call history on one display geometry executed on one side (host class / firmware with literal arguments / "
                       "firmware with run-time arguments); histories are TLC random walks of 8 calls over write/line/message/clear/progress/"
                       "display/backlight/brightness/glyph, the chunked exhaustive text grid of small displays, and the probes; distinct = "
                       "distinct (history, side, rendering); every history contains at least one call that changes cells, backlight or glyphs")
    run.assumptions += ["firmware semantics = emitted C++ compiled with host g++ against /verif/mock (HD44780 model: visible window cols x rows, "
                        "setCursor clamps the row like LiquidCrystal, writes advance the cursor)",
                        "0xFF on the device and U+2588 on the host are the same glyph (full block of the progress bar)",
                        "the I2C backlight is a line with levels 0/255; a parallel display without backlight_pin has no backlight line",
                        "host: the class of a raised exception is not compared; a transpile-time refusal of a call the host refuses too is accepted",
                        "negative rows reach the mock's setCursor clamped to row 0 (the real library wraps them to the last row): the "
                        "listed deviation lcd-row-out-of-range-redirected accepts either row"]
    if os.environ.get("VERIF_C17_SKIP_MC") == "1":      # development only (mutant runs): the spec-level step does not touch /repo
        run.notes.append("spec-level model checking skipped (VERIF_C17_SKIP_MC=1)")
    else:
        model_check(run)
    cases = probes()
    cases += gen_walks(run, 360 if quick else 4000, 8, run.seed)
    execute(cases, run, "walk")
    small = gen_small(run, "GSmallQ" if quick else "G13", 10, run.seed, 420 if quick else None)
    execute(small, run, "grid", rt_every=6)


# ------------------------------------------------------------------------------------------- replay / selftest
def _one(g, h, side, runtime):
    if side == "host":
        return {"id": "replay", "side": "host", "g": g, "ev": lcd_text.host_trace(g, h)}, None
    r = lcd_text.run_pack([{"g": g, "h": h}], bool(runtime))
    if "traces" not in r or r["traces"][0] is None:
        return None, r
    return {"id": "replay", "side": "fw", "g": g, "ev": r["traces"][0]}, r


def replay(path: str) -> int:
    r = json.load(open(path))
    t, res = _one(r["g"], r["history"], r.get("side", "fw"), r.get("runtime", False))
    if t is None:
        print(json.dumps({k: res.get(k) for k in ("transpile", "cls", "msg", "compile", "stderr")}))
        print(f"VIOLATION property=C17 replay={path}")
        return 1
    v = validate("LCDTextTrace", "LCDTextTrace.cfg", [t])["replay"]
    print(json.dumps(v))
    if not v["ok"]:
        print(f"VIOLATION property=C17 replay={path}")
        return 1
    return 0


def selftest(seed: int) -> int:
    """Negative controls: corrupt one logged field of an accepted trace / drop one event -> rejected at that call."""
    g = G(8, 2, "parallel", True)
    h = [C("write", i=[2, 1], t=[txt("abc")], s=["center"], b=[True]), C("line", i=[0], t=[txt("hello")], s=["right"], b=[False]),
         C("progress", i=[1, 1, 2, 4], t=[[]], s=["hash"], b=[True]), C("brightness", i=[77]), C("backlight", b=[False]),
         C("glyph", i=[2], t=[[1, 2, 3, 4, 5, 6, 7, 40]]), C("message", t=[txt("AB"), txt("CD")], s=["left", "center"], b=[True, True, True])]
    host, _ = _one(g, h, "host", False)
    dev, _ = _one(g, h, "fw", False)
    host["id"], dev["id"] = "host-orig", "fw-orig"
    muts = []

    def mut(base, name, at, fn):
        c = copy.deepcopy(base)
        c["id"] = name
        fn(c["ev"][at])
        muts.append((name, at))
        return c

    batch = [host, dev,
             mut(dev, "fw-cell", 1, lambda e: e["cell"][1].__setitem__(4, 122)),                 # one character one cell to the left
             mut(dev, "fw-other-row", 2, lambda e: e["cell"][1].__setitem__(0, 120)),            # line(0, ...) touching row 1
             mut(dev, "fw-off", 2, lambda e: e.__setitem__("off", 1)),                           # a character beyond the width
             mut(dev, "fw-clamped", 1, lambda e: e.__setitem__("clamped", 3)),                   # written after a clamped cursor
             mut(dev, "fw-progress", 3, lambda e: e["cell"][1].__setitem__(3, 35)),              # filled 4 of 4 at value 1/2
             mut(dev, "fw-pin", 4, lambda e: e.__setitem__("pin", 78)),                          # wrong PWM level
             mut(dev, "fw-pin-off", 5, lambda e: e.__setitem__("pin", 77)),                      # backlight(False) leaves the pin on
             mut(dev, "fw-glyph", 6, lambda e: (e["gup"][0]["bm"].__setitem__(7, 40), e["gl"][2].__setitem__(7, 40))),   # row not masked to 5 bits
             mut(host, "host-cell", 2, lambda e: e["cell"][0].__setitem__(0, 104)),              # right-aligned text shifted
             mut(host, "host-bright", 4, lambda e: e.__setitem__("br", 76)),
             mut(host, "host-raise", 1, lambda e: e.__setitem__("res", "raise")),
             mut(host, "host-width", 7, lambda e: e["cell"][0].append(32))]                      # a row grown beyond cols
    # drop one raw firmware event (a character of call 2) and project again
    s = lcd_text.render([{"g": g, "h": h}], False)
    r = fw.run_script({"src": s.source(), "passes": 0, "inputs": s.inputs()})
    evs = r["events"]
    marks = [n for n, e in enumerate(evs) if e.get("e") == "w" and str(e.get("v", "")).startswith("#0.")]
    drop = max(n for n, e in enumerate(evs[:marks[2]]) if e.get("e") == "lcd" and e.get("op") == "ch" and e.get("v") != 32)
    tr = lcd_text.project([{"g": g, "h": h}], evs[:drop] + evs[drop + 1:])[0]
    batch.append({"id": "fw-dropped-event", "side": "fw", "g": g, "ev": tr})
    muts.append(("fw-dropped-event", 2))
    v = validate("LCDTextTrace", "LCDTextTrace.cfg", batch)
    bad = 0
    for tid in ("host-orig", "fw-orig"):
        print(tid, v[tid])
        bad += not v[tid]["ok"]
    for name, at in muts:
        ok = (not v[name]["ok"]) and v[name]["l"] - 1 == at
        print(f"{name}: rejected={not v[name]['ok']} at call {v[name]['l'] - 1} (expected {at}) clause={v[name]['clause']}")
        bad += not ok
    return 1 if bad else 0
