"""C05 - setup()/loop() split: run-once prologue, repeated body, configure-before-use.

Decided by: (1) the Board monitor (tla/Board.tla): configure-before-use per pin / peripheral, never re-moded, phases
in order, every button sampled exactly once per pass before user statements.  TLC model-checks that the monitor
accepts exactly the histories the declarative discipline allows (BoardMC: all event sequences up to a bound), TLC
enumerates the scenarios (BoardGen: device kind x declared before the loop / at the top of its body x first used in
setup / loop / a helper function x 0-2 buttons with handlers x a second device x 0-2 looping LCD animations whose ticks
are held to the same once-per-pass-before-user-statements rule as button samples x every second pass ended early by
`continue`), each scenario is transpiled twice in one process and the second emission runs as firmware for
N passes and TLC validates the projected event trace (BoardTrace).  (2) Lang: programs whose prologue prints and whose
body accumulates state across passes are judged three-way (values persist exactly as in CPython, prologue once).
(3) `break` that would leave the main loop must be refused by the transpiler."""
from __future__ import annotations

import concurrent.futures as cf
import json

from harness import board, fw, lang, langcheck, langgen, langprobes
from harness.common import NCPU, MachineryError
from harness.langcheck import Strata, judge
from harness.tlc import run_tlc
from harness.tracecheck import validate

LEVEL = "model_checking"

BREAKS = {
    "break-in-main-loop": ("while True:\n    mon.write(1)\n    break\n", "reject"),
    "break-under-if-in-main-loop": ("k = 0\nwhile True:\n    k += 1\n    if k > 1:\n        break\n    mon.write(k)\n", "reject"),
    "break-in-inner-for": ("while True:\n    for i in range(3):\n        if i == 1:\n            break\n        mon.write(i)\n    mon.write(9)\n", "accept"),
    "break-in-inner-while": ("while True:\n    j = 0\n    while j < 3:\n        j += 1\n        if j == 2:\n            break\n    mon.write(j)\n", "accept"),
    # inside the clauses of a try statement that sits directly in the main loop body
    "break-in-try-body-in-main-loop": ("while True:\n    try:\n        mon.write(1)\n        break\n    except Exception as e:\n        mon.write(0)\n", "reject"),
    "break-in-except-in-main-loop": ("while True:\n    try:\n        mon.write(1)\n    except Exception as e:\n        break\n", "reject"),
    "break-under-if-in-try-in-main-loop": ("k = 0\nwhile True:\n    k += 1\n    try:\n        if k > 1:\n            break\n        mon.write(k)\n    except Exception as e:\n        mon.write(0)\n", "reject"),
    "break-in-inner-for-in-try": ("while True:\n    try:\n        for i in range(3):\n            if i == 1:\n                break\n            mon.write(i)\n    except Exception as e:\n        mon.write(0)\n    mon.write(9)\n", "accept"),
    # ... and inside the arms of conditionals that are themselves nested in conditionals of the main loop body
    "break-in-nested-else-in-main-loop": ("k = 0\nwhile True:\n    k += 1\n    if k > 0:\n        if k > 5:\n            mon.write(1)\n        else:\n            break\n    mon.write(k)\n", "reject"),
    "break-in-nested-elif-in-main-loop": ("k = 0\nwhile True:\n    k += 1\n    if k > 0:\n        if k > 5:\n            mon.write(1)\n        elif k > 3:\n            break\n    mon.write(k)\n", "reject"),
    "break-in-else-of-else-in-main-loop": ("k = 0\nwhile True:\n    k += 1\n    if k > 9:\n        mon.write(1)\n    else:\n        if k > 5:\n            mon.write(2)\n        else:\n            break\n", "reject"),
    "continue-in-nested-else-in-main-loop": ("k = 0\nwhile True:\n    k += 1\n    if k > 0:\n        if k % 2 == 0:\n            mon.write(k)\n        else:\n            continue\n    mon.write(7)\n", "accept"),
    "continue-in-nested-if-and-elif-in-main-loop": ("k = 0\nwhile True:\n    k += 1\n    if k > 0:\n        if k % 3 == 0:\n            continue\n        elif k % 3 == 1:\n            continue\n        else:\n            mon.write(k)\n    mon.write(7)\n", "accept"),
    "continue-in-else-of-else-in-main-loop": ("k = 0\nwhile True:\n    k += 1\n    if k > 9:\n        mon.write(1)\n    else:\n        if k % 2 == 0:\n            mon.write(2)\n        else:\n            continue\n    mon.write(7)\n", "accept"),
    "continue-in-for-in-else-in-main-loop": ("k = 0\nwhile True:\n    k += 1\n    if k > 9:\n        mon.write(1)\n    else:\n        for i in range(3):\n            if i == 1:\n                continue\n            mon.write(i)\n    mon.write(7)\n", "accept"),
    # `continue` that ends the pass: lowered to something that is valid where it stands (a bare `continue;` in loop() is not C++)
    "continue-in-main-loop": ("k = 0\nwhile True:\n    k += 1\n    if k % 2 == 0:\n        continue\n    mon.write(k)\n", "accept"),
    "continue-in-try-body-in-main-loop": ("k = 0\nwhile True:\n    k += 1\n    try:\n        if k % 2 == 0:\n            continue\n        mon.write(k)\n    except Exception as e:\n        mon.write(0)\n    mon.write(7)\n", "accept"),
    "continue-in-except-in-main-loop": ("k = 0\nwhile True:\n    k += 1\n    try:\n        mon.write(k)\n    except Exception as e:\n        continue\n    mon.write(7)\n", "accept"),
}


def stray_jumps(cpp: str) -> list:
    """`break;` / `continue;` lines of the emitted loop() that are not inside a C++ loop (or switch) of loop() itself: such a sketch
    cannot compile, and a `break` there would be the main loop's.  The emitter's output is regular: one statement per line."""
    import re
    out, stack, inside = [], [], False
    for ln in cpp.splitlines():
        t = ln.strip()
        if not inside:
            if re.match(r"void\s+loop\s*\(\s*\)\s*\{", t):
                inside, stack = True, ["fn"]
            continue
        if t in ("break;", "continue;") and not any(k == "loop" for k in stack):
            out.append(t)
        for ch_i, ch in enumerate(t):
            if ch == "}":
                if stack:
                    stack.pop()
                if not stack:
                    return out
            elif ch == "{":
                head = t[:ch_i].split("}")[-1].strip()
                stack.append("loop" if re.match(r"(for|while|switch)\b", head) or head == "do" else "blk")
    return out


def check(run) -> None:
    quick = run.tier == "quick"
    run.cov["rule"] = ("a case = one scenario (device kind x placement x first use x buttons x second device x animations x early continue) run as firmware for 3-4 passes and "
                       "validated by the Board monitor, or one persistence program judged three-way, or one break placement; all distinct")
    run.assumptions += ["device pins of a scenario are the pins of its declared devices; pins touched through the Core helpers are the user's business",
                        "a button's initial read in setup() is allowed; the once-per-pass rule applies to loop() passes",
                        "an animation tick is recognised by its single clock read (nothing else reads the clock in an animated scenario)"]
    res = run_tlc("BoardMC", "INIT MInit\nNEXT MNext\nCONSTANT MaxLen = %d\nINVARIANT MonitorExact\nCHECK_DEADLOCK FALSE\n" % (4 if quick else 5),
                  workers=8, timeout=1500)
    if not res.ok:
        raise MachineryError(f"BoardMC: {res.error} {res.violated}\n{res.stdout[-2000:]}")
    run.add_tlc(res, "BoardMC: monitor accepts exactly the declarative discipline, all event sequences up to the bound")
    gen = run_tlc("BoardGen", "BoardGen.cfg", workers=4)
    if not gen.ok or not gen.json:
        raise MachineryError(f"BoardGen: {gen.error}\n{gen.stdout[-1500:]}")
    run.add_tlc(gen, "BoardGen scenario enumeration")
    scs = sorted(gen.json, key=lambda s: json.dumps(s, sort_keys=True))
    if quick:
        import random
        keep = [s for s in scs if s["other"] == "none"]     # (includes every firstbind / cont / anim scenario)
        rest = [s for s in scs if s["other"] != "none"]
        scs = keep + random.Random(run.seed).sample(rest, min(60, len(rest)))
    scs += board.pin0_scenarios()             # devices on pin 0
    scs += board.monitor_scenarios()          # the serial monitor constructed in a branch / loop / helper / the main loop
    fw.ensure_runtime(False)
    with cf.ProcessPoolExecutor(max_workers=NCPU) as ex:
        outs = list(ex.map(board.run_scenario, scs, chunksize=2))
    traces = []
    for o in outs:
        run.count("scenario:" + o["id"])
        if o["transpile"] == "reject":
            run.cov["rejected_scenarios"] = run.cov.get("rejected_scenarios", 0) + 1
            continue
        if o["transpile"] != "accept":
            run.cov["internal_error_see_C11"] = run.cov.get("internal_error_see_C11", 0) + 1
            continue
        if o.get("compile") != "ok":
            run.cov["compile_fail_see_C06"] = run.cov.get("compile_fail_see_C06", 0) + 1
            run.notes.append(f"compile failure (C06): {o['id']}") if len(run.notes) < 8 else None
            continue
        if o.get("hang"):
            run.violation(f"scenario {o['id']}: the firmware never finishes setup() + {3} loop() passes (phase order: a statement does not return)",
                          {"scenario": o["sc"], "script": o["src"], "hang": True, "events": o.get("first_events")})
            continue
        traces.append(o["trace"])
    # a decorated scenario is compared with its plain twin (same scenario without the decoration)
    plain = {t["id"]: t for t in traces}
    for t in traces:
        twin = plain.get(t["id"][:-len("-decor")]) if t["id"].endswith("-decor") else None
        t["twin"] = twin["ev"] if twin is not None else t["ev"]
    verdicts = validate("BoardTrace", "BoardTrace.cfg", traces, run, label="scenarios") if traces else {}
    byid = {o["id"]: o for o in outs}
    if traces:
        run.sample({"scenario": byid[traces[0]["id"]]["sc"], "events": traces[0]["ev"][:12]})
    for tid, v in verdicts.items():
        if not v["ok"]:
            o = byid[tid]
            ev = o["trace"]["ev"]
            run.violation(f"scenario {tid}: event {v['l']} breaks the discipline ({v['clause']}): {json.dumps(ev[v['l'] - 1])}",
                          {"scenario": o["sc"], "script": o["src"], "verdict": v, "events": ev[:80]})
    # ---- break placements
    hdr = "\n".join(board.HEADER) + "\n"
    for name, (body, want) in BREAKS.items():
        run.count("break:" + name)
        r = fw.run_script({"src": hdr + body, "passes": 3, "keep_cpp": True})
        if want == "accept" and r["transpile"] == "accept" and stray_jumps(r.get("cpp", "")):
            run.violation(f"{name}: the emitted loop() jumps out of nothing ({stray_jumps(r['cpp'])[0]} outside any loop of loop())",
                          {"script": hdr + body, "cpp_loop": r["cpp"][r["cpp"].find("void loop"):][:1500]})
        if want == "reject" and r["transpile"] == "accept":
            passes = [e for e in r.get("events", []) if e.get("e") == "phase" and e.get("v") == "loop"]
            run.violation(f"{name}: a break that leaves the main loop was accepted", {"script": hdr + body, "passes_seen": len(passes)})
        if want == "accept" and r["transpile"] == "accept" and r.get("compile") == "ok":
            passes = [e for e in r["events"] if e.get("e") == "phase" and e.get("v") == "loop"]
            if len(passes) != 3:
                run.violation(f"{name}: inner break ended the main loop after {len(passes)} passes", {"script": hdr + body})
    # ---- persistence across passes, prologue once (Lang three-way)
    counts: dict = {}
    st = Strata(run, "C05")
    progs = st.split(langgen.persist_programs(), "persistence programs")
    r3 = lang.three_way(progs, run, "persistence programs")
    for p in progs:
        run.count("persist:" + p["id"])
        judge(run, p, r3[p["id"]], "program", counts)
    run.cov["outcomes"] = counts


def replay(path: str) -> int:
    r = json.load(open(path))
    if "scenario" in r:
        o = board.run_scenario(r["scenario"])
        if o.get("hang"):
            print(json.dumps({"hang": True}))
            print(f"VIOLATION property=C05 replay={path}")
            return 1
        if "trace" not in o:
            print(json.dumps({k: o.get(k) for k in ("transpile", "msg", "compile")}))
            return 0
        o["trace"]["twin"] = o["trace"]["ev"]
        if r["scenario"].get("decor"):
            o2 = board.run_scenario(dict(r["scenario"], decor=False))
            if "trace" in o2:
                o["trace"]["twin"] = o2["trace"]["ev"]
        v = validate("BoardTrace", "BoardTrace.cfg", [o["trace"]])[o["id"]]
        print(json.dumps(v))
        if not v["ok"]:
            print(f"VIOLATION property=C05 replay={path}")
            return 1
        return 0
    if "program" in r:
        p = r["program"]
        res = lang.three_way([p])[p["id"]]
        if langcheck.outcome(res) in ("mismatch", "run_fail"):
            print(f"VIOLATION property=C05 replay={path}")
            return 1
        return 0
    rr = fw.run_script({"src": r["script"], "passes": 3, "keep_cpp": True})
    if "cpp_loop" in r:                      # an accepted script whose loop() jumped out of nothing
        bad = rr["transpile"] == "accept" and bool(stray_jumps(rr.get("cpp", "")))
    elif "passes_seen" in r:                 # a break that leaves the main loop must be refused
        bad = rr["transpile"] == "accept"
    else:                                    # an inner break must not end the main loop
        bad = rr["transpile"] == "accept" and rr.get("compile") == "ok" and \
            len([e for e in rr["events"] if e.get("e") == "phase" and e.get("v") == "loop"]) != 3
    if bad:
        print(f"VIOLATION property=C05 replay={path}")
        return 1
    return 0


def selftest(seed: int) -> int:
    """Negative controls: move the pinMode after the first write / duplicate a button poll -> rejected with the clause."""
    sc = {"kind": "led", "place": "before", "use": "loop", "nb": 1, "hasloop": True, "other": "none"}
    o = board.run_scenario(sc)
    t = o["trace"]
    t["twin"] = t["ev"]
    import copy
    a = copy.deepcopy(t); a["id"] = "late-pinmode"
    i = next(k for k, e in enumerate(a["ev"]) if e["e"] == "pm" and e["p"] == 5)
    pm = a["ev"].pop(i); a["ev"].append(pm); a["twin"] = a["ev"]
    b = copy.deepcopy(t); b["id"] = "double-poll"
    j = max(k for k, e in enumerate(b["ev"]) if e["e"] == "poll")
    b["ev"].insert(j, b["ev"][j]); b["twin"] = b["ev"]
    v = validate("BoardTrace", "BoardTrace.cfg", [t, a, b])
    print(v)
    return 0 if v[t["id"]]["ok"] and v["late-pinmode"]["clause"] == "output-before-pinMode" and v["double-poll"]["clause"] == "button-sampled-twice-in-pass" else 1
