#!/usr/bin/env python3
"""tools/seedmatrix.py [ids...] : evaluate the seeded changes kept under /verif/seeded against the checks.

For every seeded/<PROP>-<n>/ (patch.diff, demo.py | test_demo.py, README.txt):
  1. in a scratch git worktree of /repo (outside /repo and /verif, removed afterwards): the demonstration exits 0 on the
     unchanged tree, the repository's own test suite passes with the change, the demonstration exits non-zero with it;
  2. `git -C /repo apply patch.diff`, run `./check <PROP> --tier quick` (and the extra checks named in EXTRA) with
     VERIF_OUT pointing at a scratch directory (so /verif/evidence keeps describing the unchanged tree),
     `git -C /repo checkout -- .` straight afterwards;
  3. write seeded/<id>/meta.json and seeded/MATRIX.md.
Nothing is committed in /repo.  Exit 0 if every seeded change is confirmed and caught by its property's check."""
import json, os, re, shutil, subprocess, sys, tempfile, time
from pathlib import Path

VERIF = Path(__file__).resolve().parent.parent
SEEDED = VERIF / "seeded"
# seeded changes that stopped being defects because a later `fix:` commit removed the mechanism they relied on
OBSOLETE = {"C09-2": "relied on the shallow temporaries of a list swap; since b5d87be (__redu_list owns its buffer) the temporaries are deep "
                     "copies and the change is harmless: its own demonstration passes with it"}
EXTRA = {"C14-2": ["C06"], "C11-2": ["C10"], "C15-2": ["C01"]}   # other checks that are expected to notice as well
PY = "/venv/bin/python"


def sh(cmd, **kw):
    return subprocess.run(cmd, capture_output=True, text=True, **kw)


def needs_of(readme: str) -> str:
    """The README section that says what the change needs to manifest."""
    lines = readme.splitlines()

    def heading(i: int) -> bool:
        ln = lines[i]
        if not ln.strip() or ln.startswith((" ", "\t", "*", "-")):
            return False
        under = i + 1 < len(lines) and re.match(r"^[-=~]{3,}\s*$", lines[i + 1]) is not None
        head = ln.split("(")[0].strip()
        follows_blank = (i == 0 or not lines[i - 1].strip()) and i + 1 < len(lines) and lines[i + 1].startswith("  ")
        if follows_blank and re.match(r"^(what|why|how|where|commands|demonstration|the change|files?)\b", ln, re.I) and len(ln) < 70:
            return True
        return under or (head.isupper() and len(head) > 6) or (ln.rstrip().endswith(":") and len(ln) < 60 and re.search(r"(need|trigger|manifest)", ln, re.I) is not None)

    for i in range(len(lines)):
        if heading(i) and re.search(r"(need|trigger|manifest)", lines[i], re.I):
            out = []
            for j in range(i + 1, len(lines)):
                if re.match(r"^[-=~]{3,}\s*$", lines[j]):
                    continue
                if heading(j):
                    break
                out.append(lines[j])
            return " ".join(" ".join(out).split())[:900]
    return ""


def demo(wt: Path, d: Path) -> int:
    env = dict(os.environ, PYTHONPATH=str(wt / "src"), PYTHONDONTWRITEBYTECODE="1")
    env.pop("REDUINO_VERIF", None)
    if (d / "test_demo.py").exists():
        return sh([PY, "-m", "pytest", "-q", "-p", "no:cacheprovider", str(d / "test_demo.py")], cwd=wt, env=env).returncode
    return sh([PY, "demo.py"], cwd=d, env=env).returncode


def main() -> int:
    # --worktree: run the checks against the scratch worktree (REDUINO_REPO) instead of applying the patch to /repo - the same
    # code path of the checks, used when /repo must stay untouched because other runs read it at the same time
    in_wt = "--worktree" in sys.argv
    sys.argv = [a for a in sys.argv if a != "--worktree"]
    ids = sys.argv[1:] or sorted(p.name for p in SEEDED.iterdir() if (p / "patch.diff").exists())
    base = json.load(open("/root/.vp/BASELINE.json"))
    head = sh(["git", "-C", "/repo", "rev-parse", "--short", "HEAD"]).stdout.strip()
    if sh(["git", "-C", "/repo", "status", "--porcelain"]).stdout.strip():
        print("refusing: /repo has uncommitted changes")
        return 2
    tmp = Path(tempfile.mkdtemp(prefix="seedmatrix-"))
    wt = tmp / "wt"
    sh(["git", "-C", "/repo", "worktree", "add", "--detach", str(wt), "HEAD"])
    rows, bad = [], 0
    baseline: dict = {}

    def run_check(c: str, out: Path):
        env = dict(os.environ, VERIF_OUT=str(out))
        if in_wt:
            env["REDUINO_REPO"] = str(wt)
        return sh([str(VERIF / "check"), c, "--tier", "quick"], env=env)

    def unchanged_ok(c: str) -> bool:
        """A violation that is also reported without the change says nothing about the change: the check must pass on the
        unchanged tree (same worktree, same mode) for its verdict on a changed tree to count."""
        if c not in baseline:
            p0 = run_check(c, tmp / f"base-{c}")
            baseline[c] = (p0.returncode == 0 and not any(ln.startswith("VIOLATION") for ln in p0.stdout.splitlines()))
            shutil.rmtree(tmp / f"base-{c}", ignore_errors=True)
            if not baseline[c]:
                print(f"WARNING: check {c} does not pass on the unchanged tree - nothing it reports counts as a catch", flush=True)
        return baseline[c]

    try:
        for sid in ids:
            d = SEEDED / sid
            prop = sid.split("-")[0]
            work = tmp / ("demo-" + sid)
            shutil.copytree(d, work)
            meta = {"id": sid, "property": prop, "repo_head": head, "patch": "patch.diff",
                    "demonstration": "test_demo.py" if (d / "test_demo.py").exists() else "demo.py",
                    "origin": "written by a fresh sub-agent that was given only the text of the property and its own scratch git worktree of /repo",
                    "needs_to_manifest": needs_of((d / "README.txt").read_text(errors="replace"))}
            sh(["git", "-C", str(wt), "checkout", "-q", "--", "."]); sh(["git", "-C", str(wt), "clean", "-fdq"])
            r0 = demo(wt, work)
            ap = sh(["git", "-C", str(wt), "apply", str(d / "patch.diff")])
            if ap.returncode != 0:
                meta["confirmed"] = False; meta["error"] = "patch does not apply to HEAD: " + ap.stderr[-300:]
                rows.append(meta); bad += 1
                (d / "meta.json").write_text(json.dumps(meta, indent=1) + "\n")
                continue
            env = dict(os.environ); env.pop("REDUINO_VERIF", None)
            t = sh([PY, "-m", "pytest", "-q", "-p", "no:cacheprovider"], cwd=wt, env=env)
            m = re.search(r"\d+ passed[^\n]*|\d+ failed[^\n]*", t.stdout)
            tests = m.group(0) if m else f"pytest exit {t.returncode}"
            r1 = demo(wt, work)
            sh(["git", "-C", str(wt), "checkout", "-q", "--", "."]); sh(["git", "-C", str(wt), "clean", "-fdq"])
            meta["ran"] = {"demonstration_on_unchanged_tree_exit": r0, "repository_tests_with_change": tests, "demonstration_with_change_exit": r1}
            meta["confirmed"] = (r0 == 0 and r1 != 0 and t.returncode == 0)
            if sid in OBSOLETE and not meta["confirmed"]:
                meta["obsolete"] = OBSOLETE[sid]
            checks = {}
            clean = {c: unchanged_ok(c) for c in [prop] + EXTRA.get(sid, [])}       # (the worktree / /repo is unchanged here)
            if in_wt:
                sh(["git", "-C", str(wt), "apply", str(d / "patch.diff")])
            else:
                sh(["git", "-C", "/repo", "apply", str(d / "patch.diff")])
            try:
                for c in [prop] + EXTRA.get(sid, []):
                    out = tmp / f"out-{sid}-{c}"
                    t0 = time.time()
                    p = run_check(c, out)
                    vio = [ln for ln in p.stdout.splitlines() if ln.startswith("VIOLATION")]
                    first = ""
                    ls = p.stdout.splitlines()
                    for i, ln in enumerate(ls):
                        if ln.startswith("VIOLATION") and i + 1 < len(ls) and ls[i + 1].startswith("  "):
                            first = ls[i + 1].strip()[:300]
                            break
                    checks[c] = {"command": f"./check {c} --tier quick", "exit": p.returncode, "violation_lines": len(vio), "first": first, "wall_s": round(time.time() - t0, 1),
                                 "passes_on_unchanged_tree": clean[c]}
            finally:
                if in_wt:
                    sh(["git", "-C", str(wt), "checkout", "-q", "--", "."]); sh(["git", "-C", str(wt), "clean", "-fdq"])
                else:
                    sh(["git", "-C", "/repo", "checkout", "-q", "--", "."])
            meta["applied_to"] = "scratch worktree via REDUINO_REPO" if in_wt else "/repo (git apply, reverted afterwards)"
            meta["checks_with_change_applied"] = checks
            meta["caught_by"] = sorted(c for c, v in checks.items() if v["exit"] == 1 and v["violation_lines"] > 0 and v["passes_on_unchanged_tree"])
            meta["caught"] = prop in meta["caught_by"]
            if not (meta["confirmed"] and meta["caught"]) and "obsolete" not in meta:
                bad += 1
            (d / "meta.json").write_text(json.dumps(meta, indent=1) + "\n")
            rows.append(meta)
            print(sid, "confirmed" if meta["confirmed"] else ("OBSOLETE" if "obsolete" in meta else "NOT-CONFIRMED"), "caught by " + ",".join(meta["caught_by"]) if meta["caught_by"] else "MISSED", flush=True)
            shutil.rmtree(work, ignore_errors=True)
            for o in tmp.glob("out-*"):
                shutil.rmtree(o, ignore_errors=True)
    finally:
        sh(["git", "-C", "/repo", "checkout", "-q", "--", "."])
        sh(["git", "-C", "/repo", "worktree", "remove", "--force", str(wt)])
        shutil.rmtree(tmp, ignore_errors=True)
    rows = [json.load(open(p / "meta.json")) for p in sorted(SEEDED.iterdir()) if (p / "meta.json").exists()]
    if rows:
        L = ["# Seeded changes x checks (generated by tools/seedmatrix.py)", "",
             f"/repo HEAD {head}; every change compiles, passes the repository's {base.get('n_tests', 123) if isinstance(base, dict) else 123} tests and is shown by its own demonstration.", "",
             "| seeded change | confirmed | caught by (quick tier) | first report |", "|---|---|---|---|"]
        for m in rows:
            c = m.get("checks_with_change_applied", {})
            first = (c.get(m["property"], {}).get("first") or m.get("error", "")).replace("|", "\\|")[:160]
            L.append(f"| {m['id']} | {'yes' if m.get('confirmed') else ('obsolete' if 'obsolete' in m else 'NO')} | "
                     f"{', '.join(m.get('caught_by', [])) or ('-' if 'obsolete' in m else 'MISSED')} | {(m.get('obsolete') or first)[:160]} |")
        (SEEDED / "MATRIX.md").write_text("\n".join(L) + "\n")
    return 1 if bad else 0


if __name__ == "__main__":
    sys.exit(main())
