#!/bin/bash
# tools/thorough_all.sh [ids...]: run the thorough tier of the given (default: all) checks one after the other with
# VERIF_OUT pointing at a scratch directory (evidence/ keeps the quick-tier evidence); prints one line per check.
OUT=${VERIF_THOROUGH_OUT:-/tmp/verif-thorough}
mkdir -p $OUT
IDS=${@:-C01 C02 C03 C04 C05 C06 C07 C08 C09 C10 C11 C12 C13 C14 C15 C16 C17 C18 C19 C20}
for p in $IDS; do
  s=$(date +%s)
  VERIF_OUT=$OUT /verif/check $p --tier thorough > $OUT/$p.log 2>&1; rc=$?
  e=$(( $(date +%s) - s ))
  echo "$p thorough exit=$rc wall=${e}s $(grep -c '^VIOLATION' $OUT/$p.log) violations; $(grep -v '^  \|^VIOLATION\|^KNOWN\|^WARNING' $OUT/$p.log | tail -1)"
done
