#!/usr/bin/env python3
"""tools/design_tables.py: rewrite the generated tables of DESIGN.md (between the BEGIN/END GENERATED markers) from
the committed data: evidence/*.json (last quick run on /repo), known_findings.json, seeded/*/meta.json, MANIFEST.json."""
import json
import re
import subprocess
from pathlib import Path

V = Path(__file__).resolve().parent.parent


def esc(s: str, n: int = 200) -> str:
    s = " ".join(str(s).split())
    if len(s) > n:
        s = s[: n - 1] + "…"
    return s.replace("|", "\\|")


def status_table() -> list:
    man = json.load(open(V / "MANIFEST.json"))
    known = json.load(open(V / "known_findings.json"))["findings"]
    L = ["| id | level claimed | TLC distinct states | traces of the real code validated | cases executed | wall (quick) | known / fixed findings |",
         "|---|---|---|---|---|---|---|"]
    for c in man["checks"]:
        p = c["property_id"]
        e = json.load(open(V / "evidence" / f"{p}.json"))
        cov = e.get("coverage", e)
        nk = sum(1 for f in known if f["property"] == p and f["status"] == "known")
        nf = sum(1 for f in known if f["property"] == p and f["status"] == "fixed")
        L.append(f"| {p} | {c['level_claimed']['category']} | {cov.get('states')} | {cov.get('traces_validated_against_impl')} | "
                 f"{cov.get('evaluations')} | {e.get('wall_s', cov.get('wall_s', '?'))} s | {nk} / {nf} |")
    return L


def fixes_table() -> list:
    known = json.load(open(V / "known_findings.json"))["findings"]
    log = subprocess.run(["git", "-C", "/repo", "log", "--format=%h\t%s"], capture_output=True, text=True).stdout.splitlines()
    subj = {ln.split("\t")[0]: ln.split("\t", 1)[1] for ln in log if "\t" in ln}
    by: dict = {}
    for f in known:
        if f["status"] == "fixed":
            by.setdefault(f["commit"], []).append(f)
    order = [h for h in subj if h in by]
    L = ["| commit | subject | findings repaired (property: id) |", "|---|---|---|"]
    for h in reversed(order):
        L.append(f"| `{h}` | {esc(subj[h], 120)} | " + "; ".join(f"{f['property']}: {f['id']}" for f in by[h]) + " |")
    missing = [h for h in by if h not in subj]
    for h in missing:
        L.append(f"| `{h}` | (not on the current branch) | " + "; ".join(f"{f['property']}: {f['id']}" for f in by[h]) + " |")
    return L


def known_table() -> list:
    known = json.load(open(V / "known_findings.json"))["findings"]
    L = ["| property | id | fails on (trigger) | observed | expected |", "|---|---|---|---|---|"]
    for f in known:
        if f["status"] == "known":
            L.append(f"| {f['property']} | `{f['id']}` | {esc(f.get('trigger', ''), 230)} | {esc(f.get('observed', ''), 200)} | {esc(f.get('expected', ''), 140)} |")
    return L


def matrix_table() -> list:
    rows = [json.load(open(p / "meta.json")) for p in sorted((V / "seeded").iterdir()) if (p / "meta.json").exists()]
    L = ["| seeded change | what it needs to manifest | caught by | first report of the property's check |", "|---|---|---|---|"]
    for m in rows:
        c = m.get("checks_with_change_applied", {})
        first = c.get(m["property"], {}).get("first") or m.get("error", "")
        if "obsolete" in m:
            L.append(f"| {m['id']} | {esc(m.get('needs_to_manifest', ''), 170)} | (obsolete) | {esc(m['obsolete'], 200)} |")
            continue
        L.append(f"| {m['id']} | {esc(m.get('needs_to_manifest', ''), 170)} | {', '.join(m.get('caught_by', [])) or 'MISSED'} | {esc(first, 150)} |")
    live = [m for m in rows if "obsolete" not in m]
    n = sum(1 for m in live if m.get("caught"))
    L.append("")
    L.append(f"{n} of {len(live)} live seeded changes are caught by the quick tier of their own property's check "
             f"(/repo HEAD {rows[0].get('repo_head') if rows else '?'} when the matrix was last run).")
    return L


GEN = {"STATUS": status_table, "FIXES": fixes_table, "KNOWN": known_table, "MATRIX": matrix_table}


def main() -> None:
    p = V / "DESIGN.md"
    s = p.read_text()
    for key, fn in GEN.items():
        pat = re.compile(rf"(<!-- BEGIN GENERATED {key} -->\n).*?(<!-- END GENERATED {key} -->)", re.S)
        if not pat.search(s):
            print("marker missing:", key)
            continue
        body = "\n".join(fn()) + "\n"
        s = pat.sub(lambda m: m.group(1) + body + m.group(2), s)
    p.write_text(s)
    print("DESIGN.md tables regenerated")


if __name__ == "__main__":
    main()
