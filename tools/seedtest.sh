#!/bin/bash
# tools/seedtest.sh <PROP> <N> [extra check ids...]: confirm a seeded change (tests pass with it, demo fails with it and
# passes without), then run the property's quick check (and any extra checks) with the change applied to /repo.
P=$1; N=$2; shift 2; EXTRA="$@"
D=/tmp/seedout/$P/$N; WT=/tmp/seed/$P
[ -f $D/patch.diff ] || { echo "no patch $D"; exit 2; }
git -C $WT checkout -q -- . ; git -C $WT clean -fdq
demo() { if [ -f $D/test_demo.py ]; then (cd $1 && PYTHONPATH=$1/src /venv/bin/python -m pytest -q -p no:cacheprovider $D/test_demo.py >/tmp/seeddemo.log 2>&1); else (cd $D && PYTHONPATH=$1/src /venv/bin/python demo.py >/tmp/seeddemo.log 2>&1); fi; echo $?; }
echo "== demo on pristine: exit $(demo $WT) (want 0)"
git -C $WT apply $D/patch.diff || { echo "patch does not apply"; exit 2; }
(cd $WT && /venv/bin/python -m pytest -q -p no:cacheprovider 2>&1 | tail -1)
echo "== demo with change: exit $(demo $WT) (want non-zero)"
git -C $WT checkout -q -- . ; git -C $WT clean -fdq
git -C /repo apply $D/patch.diff || { echo "patch does not apply to /repo"; exit 2; }
for C in $P $EXTRA; do
  /verif/check $C --tier quick > /tmp/seedcheck-$P-$N-$C.log 2>&1; echo "== check $C exit $? : $(grep -c '^VIOLATION' /tmp/seedcheck-$P-$N-$C.log) violations; $(grep -v '^  \|^VIOLATION\|^KNOWN\|^WARNING' /tmp/seedcheck-$P-$N-$C.log | tail -1)"
  grep -A1 '^VIOLATION' /tmp/seedcheck-$P-$N-$C.log | grep '^  ' | head -2
done
git -C /repo checkout -q -- . ; git -C /repo status --short | head -2
