#!/usr/bin/env python3
"""tools/seedprompts.py <round> <first-seed-number>: prepare one seeding round.  For every property: a scratch git worktree of
/repo HEAD at /tmp/seed<round>/<id>, and /tmp/seedout<round>/<id>/{PROPERTY.txt, PROMPT.txt}.  A fresh sub-agent is then started
per property with nothing but "read PROMPT.txt and do what it says".  The prompt holds the property record, the list of one-line
titles of the changes earlier sub-agents produced for that property (so that a new round explores other code sites) and the task
description - nothing about how /verif checks anything."""
import json
import re
import subprocess
import sys
from pathlib import Path

ROUND, FIRST = sys.argv[1], int(sys.argv[2])
BASE = '''You are helping to evaluate a verification effort by seeding realistic defects into a Python project.

Project: Reduino (a Python-subset DSL -> Arduino C++ transpiler with host-side device simulation classes). You have your OWN scratch git worktree of it at /tmp/seed@R@/@ID@ (work only there; never touch /repo, never look at or touch /verif). Run its tests with:  cd /tmp/seed@R@/@ID@ && env -u REDUINO_VERIF /venv/bin/python -m pytest -q -p no:cacheprovider   (123 tests, a few seconds). A host C++ compiler (g++) is available if you want to compile emitted code against your own small stubs.

The property under attack (the full record is in /tmp/seedout@R@/@ID@/PROPERTY.txt - read it, including the anchors: they name the files and mechanisms involved):
@TEXT@

Ideas that have ALREADY been used against this property (do not repeat them or close variants - choose other code sites and other mechanisms):
@USED@

Task: produce TWO independent changes to the project's source (not to its tests), each of which
 1. still imports/compiles and passes the whole existing test suite unchanged,
 2. breaks the property above for some inputs/histories/schedules that the property quantifies over,
 3. is REALISTIC - the kind of slip a maintainer makes in a refactoring, an optimisation, a "tidy-up", a bug fix with a side effect, a copy-paste - not a gratuitous sabotage, no dead giveaway comments,
 4. needs something SPECIFIC to manifest: a particular value or value class, a multi-step history, an ordering/interleaving, a particular call shape or code site that the existing tests never reach. Prefer changes that manifest only off the beaten path (NOT on the first, most obvious input one would try) - think of corner values (zero, negative, boundary of a range, equal arguments), rarely combined features, second and later calls, unusual but legal spellings of the same call, state left over from an earlier operation, parts of the property statement that are easy to overlook, interactions between two features that are each fine on their own. The two changes must use DIFFERENT mechanisms and different code sites from each other and from the list above. Aim for subtle: something a reviewer could wave through. Re-read the property statement clause by clause and prefer a clause or a quantified dimension that the list above has not touched yet.
For each change write into /tmp/seedout@R@/@ID@/1/ and /tmp/seedout@R@/@ID@/2/ :
  - patch.diff : `git diff` of the change against the worktree's HEAD (must apply with `git apply` to a clean checkout of HEAD),
  - demo.py : a self-contained demonstration run as `cd <that dir> && PYTHONPATH=<worktree>/src /venv/bin/python demo.py` that exits 0 on the unchanged tree and non-zero with the change applied (it may transpile scripts, compile the emitted C++ with g++ against small stubs it writes itself into a temp dir, drive the host classes, fake subprocess/serial, etc.; it must not need network, and must not reference /tmp/seed@R@ paths - use the imported package),
  - README.txt : what the change is, why it breaks the property, a section headed exactly "What is needed for it to manifest" describing the specific trigger, and the commands you ran with their results (tests pass with the change; demo fails with it, passes without).
Verify all of that yourself before finishing. Leave the worktree clean at the end (`git -C /tmp/seed@R@/@ID@ checkout -- . && git -C /tmp/seed@R@/@ID@ clean -fdq`). Your final message: one paragraph per change (site, mechanism, trigger).
'''
Path(f"/tmp/seed{ROUND}").mkdir(exist_ok=True)
for line in open("/verif/properties.jsonl"):
    d = json.loads(line)
    pid = d["id"]
    out = Path(f"/tmp/seedout{ROUND}/{pid}")
    out.mkdir(parents=True, exist_ok=True)
    (out / "PROPERTY.txt").write_text(json.dumps({k: d[k] for k in ("id", "title", "statement", "quantifier", "why_tests_cant", "anchors")}, indent=1))
    used = []
    for n in range(1, FIRST):
        r = Path(f"/verif/seeded/{pid}-{n}/README.txt")
        if r.exists():
            lines = [x.strip() for x in r.read_text(errors="replace").splitlines() if x.strip() and not re.match(r"^[-=~]+$", x.strip())]
            t = lines[0]
            if len(lines) > 1 and not lines[1].lower().startswith(("what", "site", "file", "src")) and len(t) < 90:
                t += " " + lines[1]
            t = re.sub(r"^C\d\d\s*(seed(ed)?( change)?|/ change|change)?\s*\d?\s*[-–:]*\s*", "", t).strip()
            used.append(" - " + t[:200])
    text = (f"{pid} - {d['title']}\nStatement: {d['statement']}\nQuantified over: {d['quantifier']['text']}\n"
            f"Why the existing tests cannot settle it: {d['why_tests_cant']}")
    (out / "PROMPT.txt").write_text(BASE.replace("@R@", ROUND).replace("@ID@", pid).replace("@TEXT@", text).replace("@USED@", "\n".join(used)))
    subprocess.run(["git", "-C", "/repo", "worktree", "add", "--detach", f"/tmp/seed{ROUND}/{pid}", "HEAD", "-q"])
